#!/usr/bin/env python3
# builds /verif/seeded/<id>/ from the sub-agents' deliverables and my confirmation results
import json,os,re,shutil,sys,glob
res={}
for f in sorted(glob.glob('/tmp/mut/results*.txt'), key=os.path.getmtime):
    for l in open(f):
        m=re.match(r'RESULT (/tmp/mut/out(2?)/(C\d+)/(m\d)) build=(\w+) suite=(\w+) demo_with=(\w+) demo_without=(\w+) \| (.*)',l)
        if not m: continue
        d,wave,prop,mn,build,suite,dw,dwo,rest=m.groups()
        if wave=='2': mn='w2'+mn
        res[(prop,mn)]=dict(dir=d,build=build,suite=suite,demo_with=dw,demo_without=dwo,checks=rest.strip())
for (prop,mn),r in sorted(res.items()):
    sid=f"{prop}-{mn}"
    out=f"/verif/seeded/{sid}"
    confirmed = r['build']=='ok' and r['demo_with']=='fail' and r['demo_without']=='pass'
    if not confirmed:
        print("NOT CONFIRMED",sid,r); continue
    os.makedirs(out,exist_ok=True)
    for fn in ['patch.diff','demo_test.go','RUN.txt']:
        if os.path.exists(os.path.join(r['dir'],fn)): shutil.copy(os.path.join(r['dir'],fn),os.path.join(out,fn if fn!='demo_test.go' else 'demo_test.go.txt'))
    meta=json.load(open(os.path.join(r['dir'],'meta.json')))
    detected = re.findall(r'(C\d+) exit=(\d)',r['checks'])
    m2={"id":sid,"property":prop,"summary":meta.get('summary'),"needs":meta.get('needs'),
        "author_ran":meta.get('ran'),
        "confirmed_by_me":{"how":"/verif/mutcheck.sh in a scratch worktree of /repo HEAD: patch applied (git apply --3way), go build ./internal/..., go test ./internal/... , demo with the patch, demo without the patch","build":r['build'],"suite_with_patch":r['suite'],"demo_with_patch":r['demo_with'],"demo_without_patch":r['demo_without']},
        "checks_run":[{"check":c,"tier":"quick","exit":int(e),"detected":e=='1'} for c,e in detected],
        "check_output":r['checks'][:600]}
    json.dump(m2,open(os.path.join(out,'meta.json'),'w'),indent=1)
    print(sid,"suite",r['suite'],[f"{c}:{'DETECTED' if e=='1' else 'missed'}" for c,e in detected])
