#!/usr/bin/env python3
# wave 7: builds /verif/seeded/<prop>-w7mN/ from the sub-agents' deliverables (/tmp/mut/out7),
# the first confirmation run (results_w7_first.txt) and the final one (results_w7_final.txt)
import json,os,re,shutil
def parse(fn):
    res={}
    if not os.path.exists(fn): return res
    for l in open(fn):
        m=re.match(r'RESULT (/tmp/mut/out7/(C\d+)/(m\d)) build=(\w+) suite=(\w+) demo_with=(\w+) demo_without=(\w+) \| (.*)',l)
        if not m: continue
        d,prop,mn,build,suite,dw,dwo,rest=m.groups()
        res[(prop,mn)]=dict(dir=d,build=build,suite=suite,demo_with=dw,demo_without=dwo,checks=rest.strip())
    return res
first=parse('/tmp/mut/results_w7_first.txt'); final=parse('/tmp/mut/results_w7_final.txt')
for key in sorted(final):
    prop,mn=key; r=final[key]; f=first.get(key,{})
    sid=f"{prop}-w7{mn}"; out=f"/verif/seeded/{sid}"
    if not (r['build']=='ok' and r['demo_with']=='fail' and r['demo_without']=='pass'):
        print("NOT CONFIRMED",sid,r); continue
    os.makedirs(out,exist_ok=True)
    for fn in ['patch.diff','demo_test.go','RUN.txt','patch.orig.diff']:
        p=os.path.join(r['dir'],fn)
        if os.path.exists(p): shutil.copy(p,os.path.join(out,fn if fn!='demo_test.go' else 'demo_test.go.txt'))
    meta=json.load(open(os.path.join(r['dir'],'meta.json')))
    det=lambda s: re.findall(r'(C\d+) exit=(\d)',s)
    m2={"id":sid,"property":prop,"summary":meta.get('summary'),"needs":meta.get('needs'),"author_ran":meta.get('ran'),
        "confirmed_by_me":{"how":"/verif/mutcheck.sh in a scratch worktree of /repo HEAD: patch applied, go build ./internal/..., go test ./internal/..., demo with the patch, demo without the patch (C20 demos with -race)","build":r['build'],"suite_with_patch":r['suite'],"demo_with_patch":r['demo_with'],"demo_without_patch":r['demo_without']},
        "first_run":{"checks":[{"check":c,"tier":"quick","exit":int(e),"detected":e=='1'} for c,e in det(f.get('checks',''))],"output":f.get('checks','')[:400]},
        "checks_run":[{"check":c,"tier":"quick","exit":int(e),"detected":e=='1'} for c,e in det(r['checks'])],
        "check_output":r['checks'][:600]}
    cross={"C08-w7m2x":""}
    cross={}
    crossf='/tmp/mut/results_w7_cross.txt'
    notcaught={
     "C11-w7m2":"not caught by any check: the reference walk becomes exponential only on a ladder of about 25 levels with two tags per level (some 50 tags); the plans use seven tag names",
     "C15-w7m1":"not caught by any check, and not reachable by any crash history: the temporary file a killed compaction leaves behind is never longer than what the next compaction writes (the first start after the kill compacts the same records again and renames the file away); the demonstration plants a longer file by hand. cachesim keeps the temporary file in its kill states since this change (DESIGN §0)",
     "C16-w7m1":"not caught by any check: the answer of a converter process that was superseded by a reset is stored; it differs from what the property demands only if the converter executable was replaced before the reset, and needs a conversion in flight at the reset (real-time overlap). The harness converter is one executable",
     "C19-w7m2":"not caught by any check: the change is in the watch-directory importer (fsnotify events, 500 ms real-time timers), which is not part of the simulated surface (listed as not exercised in the evidence); C19's statement is about upload and download requests",
    }
    pre={"C07-w7m1":"the search batteries got sub-queries related by time after reading this change and before the first run","C07-w7m2":"the search batteries got whole-address-family host filters after reading this change and before the first run","C10-w7m2":"the by-id lookup comparison was added after reading this change and before the first run","C12-w7m1":"host-name endpoints were added after reading this change and before the first run"}
    firstover={"C16-w7m1":"the first run printed exit=1 for a false alarm of the harness (ran-detached with the new gate inside the converter job, DESIGN §8.3), not for this change: counted as missed","C16-w7m2":"the first run printed exit=1 for a false alarm of the harness (ran-detached with the new gate inside the converter job, DESIGN §8.3), not for this change: counted as missed","C11-w7m2":"first run exit 2: the harness was being edited and did not compile at that moment; counted as missed"}
    if sid in firstover:
        m2["first_run"]["note"]=firstover[sid]
        for c in m2["first_run"]["checks"]: c["detected"]=False; c["exit"]=0
    if sid in pre: m2["strengthened_before_first_run"]=pre[sid]
    if sid in notcaught and not any(c["detected"] for c in m2["checks_run"]): m2["not_caught"]=notcaught[sid]
    if sid in cross: m2["cross"]=cross[sid]
    json.dump(m2,open(os.path.join(out,'meta.json'),'w'),indent=1)
    print(sid,"suite",r['suite'],"first",[f"{c}:{'DET' if e=='1' else 'missed' if e=='0' else 'exit'+e}" for c,e in det(f.get('checks',''))],"final",[f"{c}:{'DET' if e=='1' else 'missed'}" for c,e in det(r['checks'])])
