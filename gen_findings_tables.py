#!/usr/bin/env python3
# regenerates the tables of DESIGN.md §8.1 / §8.2 from known_findings.json and the fix: commits of /repo
# (between the markers <!-- findings:fixed --> ... <!-- /findings:fixed --> and <!-- findings:known --> ...)
import json, subprocess, re
d = json.load(open('/verif/known_findings.json'))
log = subprocess.run(['git', '-C', '/repo', 'log', '--reverse', '--format=%h %s'], capture_output=True, text=True).stdout.splitlines()
commits = [(l.split(' ', 1)[0], l.split(' ', 1)[1]) for l in log if l.split(' ', 1)[1].startswith('fix:')]
rows = ['| commit | signature(s) the check printed | what failed |', '|---|---|---|']
seen = set()
for h, subj in commits:
    fs = [f for f in d['findings'] if f['status'] == 'fixed' and f.get('commit', '')[:7] == h[:7]]
    sigs = '; '.join(f"{f['property']} `{f['signature']}`" for f in fs) or '(found by reading while repairing the above)'
    what = ' '.join(dict.fromkeys(f['what'] for f in fs if not f['what'].startswith('same defect')))
    rows.append(f"| `{h}` {subj[5:]} | {sigs} | {what[:700]} |")
    seen.update(id(f) for f in fs)
orph = [f for f in d['findings'] if f['status'] == 'fixed' and id(f) not in seen]
for f in orph:
    rows.append(f"| `{f.get('commit','?')}` (commit not found) | {f['property']} `{f['signature']}` | {f['what'][:400]} |")
fixed = '\n'.join(rows)
known = '\n'.join(f"* **{f['property']} `{f['signature']}`** — {f['what']}" for f in d['findings'] if f['status'] == 'known')
s = open('/verif/DESIGN.md').read()
s = re.sub(r'(<!-- findings:fixed -->\n).*?(\n<!-- /findings:fixed -->)', lambda m: m.group(1) + fixed + m.group(2), s, flags=re.S)
s = re.sub(r'(<!-- findings:known -->\n).*?(\n<!-- /findings:known -->)', lambda m: m.group(1) + known + m.group(2), s, flags=re.S)
open('/verif/DESIGN.md', 'w').write(s)
print(len(commits), 'fix commits,', len(orph), 'fixed entries without a commit in /repo')
