#!/bin/bash
# mutcheck.sh <mutant dir> <PROP> [more PROPs]: confirm a seeded change in a scratch worktree
# (applies, builds, suite passes, demo fails with / passes without), then run the given checks
# against that worktree. Prints one summary line. Removes the worktree afterwards.
M=$1; shift
. /verif/env.sh
WT=$(mktemp -d /tmp/mutwt.XXXXXX)
git -C /repo worktree add -q --detach $WT HEAD || exit 2
trap 'git -C /repo worktree remove --force $WT >/dev/null 2>&1; rm -rf $WT' EXIT
cd $WT
if ! git apply --3way $M/patch.diff >/dev/null 2>&1; then
  if ! patch -p1 -F3 -s < $M/patch.diff >/dev/null 2>&1; then echo "RESULT $M apply=FAIL"; exit 0; fi
fi
git reset -q
git diff > $WT/.applied.diff
PKG=$(grep -m1 '^package ' $M/demo_test.go | awk '{print $2}')
case $PKG in manager) D=internal/index/manager;; builder) D=internal/index/builder;; index) D=internal/index;; converters) D=internal/index/converters;; query) D=internal/query;; main) D=cmd/pkappa2; mkdir -p web/dist; echo '<html></html>' > web/dist/index.html;; *) D=internal/index/$PKG;; esac
RACE=""; case " $* " in *" C20 "*) RACE=-race;; esac
TESTS=$(grep -o '^func Test[A-Za-z0-9_]*' $M/demo_test.go | awk '{print $2}' | paste -sd'|')
BUILD=ok; $VERIF_GO build ./internal/... >/dev/null 2>&1 || BUILD=FAIL
SUITE=ok; $VERIF_GO test -vet=off -count=1 ./internal/... >/tmp/mutsuite.$$ 2>&1 || SUITE=FAIL
cp $M/demo_test.go $D/zz_demo_mut_test.go
DEMO_WITH=pass; $VERIF_GO test $RACE -vet=off -count=1 -run "^($TESTS)\$" ./$D/ >/tmp/mutdemo1.$$ 2>&1 || DEMO_WITH=fail
git apply -R $WT/.applied.diff
DEMO_WITHOUT=pass; $VERIF_GO test $RACE -vet=off -count=1 -run "^($TESTS)\$" ./$D/ >/tmp/mutdemo2.$$ 2>&1 || DEMO_WITHOUT=fail
rm -f $D/zz_demo_mut_test.go
git apply $WT/.applied.diff
OUT="RESULT $M build=$BUILD suite=$SUITE demo_with=$DEMO_WITH demo_without=$DEMO_WITHOUT"
for P in "$@"; do
  VERIF_REPO=$WT VERIF_DIR=/verif VERIF_OUT=$WT/.verif-out /verif/bin/verif check $P --tier ${MUT_TIER:-quick} > /tmp/mutchk.$$ 2>&1; E=$?
  SIG=$(grep -A1 '^VIOLATION' /tmp/mutchk.$$ | grep -v VIOLATION | head -2 | cut -c1-160 | tr '\n' ' ')
  OUT="$OUT | $P exit=$E $SIG"
  [ $E = 2 ] && OUT="$OUT $(grep 'verif:' /tmp/mutchk.$$ | head -2 | cut -c1-200 | tr '\n' ' ')"
done
echo "$OUT"
rm -f /tmp/mutsuite.$$ /tmp/mutdemo1.$$ /tmp/mutdemo2.$$ /tmp/mutchk.$$
