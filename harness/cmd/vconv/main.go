// vconv is the deterministic converter executable used by the simulation.
// Protocol (converters/pkappa2lib/README.md): one JSON object per line on
// stdin: stream metadata, then chunks, then an empty line; the converter
// answers with chunks, an empty line and the metadata.
//
// Output: every chunk upper-cased; the first output chunk is prefixed with
// "[vconv <digest>]" where digest covers the whole input (directions and
// contents), so the harness can tell for which payload an output was made.
// Every invocation is appended to $VCONV_DIR/log. If $VCONV_DIR/failmode
// exists, the first attempt for a given (stream, digest) fails (exit 1).
package main

import (
	"bufio"
	"bytes"
	"crypto/sha256"
	"encoding/base64"
	"encoding/hex"
	"encoding/json"
	"fmt"
	"os"
	"path/filepath"
	"time"
)

type meta struct {
	StreamID   uint64
	ClientHost string
	ClientPort uint16
	ServerHost string
	ServerPort uint16
	Protocol   string
}
type chunk struct {
	Direction   string
	Content     string
	Time        string
	ContentType string `json:",omitempty"`
}

func main() {
	dir := os.Getenv("VCONV_DIR")
	in := bufio.NewReaderSize(os.Stdin, 1<<20)
	out := bufio.NewWriter(os.Stdout)
	for {
		line, err := in.ReadBytes('\n')
		if err != nil {
			return
		}
		var m meta
		if err := json.Unmarshal(bytes.TrimSpace(line), &m); err != nil {
			fmt.Fprintf(os.Stderr, "bad metadata: %v\n", err)
			os.Exit(2)
		}
		var chunks []chunk
		h := sha256.New()
		nread := 0
		for {
			l, err := in.ReadBytes('\n')
			if err != nil {
				return
			}
			nread++
			if dir != "" && nread == 2 {
				// a converter that crashes while it is still being fed: after the second
				// input line it prints one chunk line and exits (once per stream id and
				// length of the first line, a marker keeps the retry alive)
				if _, err := os.Stat(filepath.Join(dir, "diemode")); err == nil {
					marker := filepath.Join(dir, fmt.Sprintf("die-%d-%d", m.StreamID, len(l)))
					if _, err := os.Stat(marker); err != nil {
						os.WriteFile(marker, nil, 0o644)
						out.WriteString("{\"Direction\":\"client-to-server\",\"Content\":\"QQ==\",\"Time\":\"2020-01-01T00:00:00\"}\n")
						out.Flush()
						os.Exit(1)
					}
				}
			}
			l = bytes.TrimSpace(l)
			if len(l) == 0 {
				break
			}
			var c chunk
			if err := json.Unmarshal(l, &c); err != nil {
				fmt.Fprintf(os.Stderr, "bad chunk: %v\n", err)
				os.Exit(2)
			}
			raw, _ := base64.StdEncoding.DecodeString(c.Content)
			d := byte(0)
			if c.Direction == "server-to-client" {
				d = 1
			}
			h.Write([]byte{d})
			h.Write(raw)
			chunks = append(chunks, c)
		}
		digest := hex.EncodeToString(h.Sum(nil)[:6])
		if dir != "" {
			if f, err := os.OpenFile(filepath.Join(dir, "log"), os.O_APPEND|os.O_CREATE|os.O_WRONLY, 0o644); err == nil {
				fmt.Fprintf(f, "%s %d %s\n", filepath.Base(os.Args[0]), m.StreamID, digest)
				f.Close()
			}
			if _, err := os.Stat(filepath.Join(dir, "failmode")); err == nil {
				marker := filepath.Join(dir, fmt.Sprintf("fail-%d-%s", m.StreamID, digest))
				if _, err := os.Stat(marker); err != nil {
					os.WriteFile(marker, nil, 0o644)
					os.Exit(1)
				}
			}
		}
		if dir != "" {
			if _, err := os.Stat(filepath.Join(dir, "slowmode")); err == nil {
				time.Sleep(80 * time.Millisecond) // a converter that takes its time (real time: only used by the C09 conversion storm)
			}
		}
		garble := -1
		if dir != "" {
			if _, err := os.Stat(filepath.Join(dir, "garblemode")); err == nil && len(chunks) > 0 {
				// a converter that breaks the protocol once per (stream, payload): one
				// malformed chunk line, then the rest of a normal answer
				marker := filepath.Join(dir, fmt.Sprintf("garble-%d-%s", m.StreamID, digest))
				if _, err := os.Stat(marker); err != nil {
					os.WriteFile(marker, nil, 0o644)
					garble = int(h.Sum(nil)[7]) % 4
				}
			}
		}
		for i, c := range chunks {
			if i == 0 && garble >= 0 {
				switch garble {
				case 0:
					out.WriteString("{\"Direction\":\"" + c.Direction + "\",\"Content\":\"QQ==\",\"Time\":\"half past nine\"}\n")
				case 1:
					out.WriteString("{\"Direction\":\"sideways\",\"Content\":\"QQ==\",\"Time\":\"" + c.Time + "\"}\n")
				case 2:
					out.WriteString("{\"Direction\":\"" + c.Direction + "\",\"Content\":\"***\",\"Time\":\"" + c.Time + "\"}\n")
				default:
					out.WriteString("this is not json\n")
				}
			}
			raw, _ := base64.StdEncoding.DecodeString(c.Content)
			conv := bytes.ToUpper(raw)
			if i == 0 {
				conv = append([]byte("[vconv "+digest+"]"), conv...)
			}
			oc := chunk{Direction: c.Direction, Content: base64.StdEncoding.EncodeToString(conv), Time: c.Time}
			b, _ := json.Marshal(oc)
			out.Write(b)
			out.WriteByte('\n')
		}
		out.WriteByte('\n')
		b, _ := json.Marshal(m)
		out.Write(b)
		out.WriteByte('\n')
		out.Flush()
	}
}
