// qprobe: parse tag definitions and a query, inline, report sizes/timing (dev tool).
package main

import (
	"fmt"
	"os"
	"strings"
	"time"

	"github.com/spq/pkappa2/internal/query"
)

func main() {
	// args: name=def ... -- query
	tags := map[string]query.TagDetails{}
	i := 1
	for ; i < len(os.Args) && os.Args[i] != "--"; i++ {
		n, d, _ := strings.Cut(os.Args[i], "=")
		q, err := query.Parse(d)
		if err != nil {
			fmt.Println("parse", n, err)
			return
		}
		all := query.TagDetails{Conditions: q.Conditions}
		all.Uncertain.Set(0)
		all.Uncertain.Set(1)
		tags[n] = all
		fmt.Printf("%s: %d conjuncts\n", n, len(q.Conditions))
	}
	qs := os.Args[i+1]
	t0 := time.Now()
	q, err := query.Parse(qs)
	if err != nil {
		fmt.Println("parse query", err)
		return
	}
	fmt.Printf("query parsed: %d conjuncts in %v\n", len(q.Conditions), time.Since(t0))
	t0 = time.Now()
	done := make(chan int)
	go func() {
		cs := q.Conditions.InlineTagFilters(tags)
		done <- len(cs)
	}()
	select {
	case n := <-done:
		fmt.Printf("inlined: %d conjuncts in %v\n", n, time.Since(t0))
	case <-time.After(60 * time.Second):
		fmt.Println("inlining did not finish in 60s")
	}
}
