package main

import (
	"encoding/json"
	"os"

	"github.com/spq/pkappa2/verif/bsim"
	"github.com/spq/pkappa2/verif/cachesim"
	"github.com/spq/pkappa2/verif/mgrsim"
	"github.com/spq/pkappa2/verif/sim"
)

var engines = map[string]sim.Engine{
	"bsim":     bsim.Engine{},
	"mgrsim":   mgrsim.Engine{},
	"cachesim": cachesim.Engine{},
}

func init() {
	mgrsim.VconvPath = os.Getenv("VERIF_VCONV")
	if k := os.Getenv("VERIF_KNOWN"); k != "" {
		var l []string
		if json.Unmarshal([]byte(k), &l) == nil {
			for _, x := range l {
				sim.Known[x] = true
			}
		}
	}
}
