package main

import (
	"github.com/spq/pkappa2/verif/bsim"
	"github.com/spq/pkappa2/verif/sim"
)

var engines = map[string]sim.Engine{
	"bsim": bsim.Engine{},
}
