// simworker executes simulated runs for one engine. It is built by the check
// with -tags verif -overlay <instrumented tree> and driven by the runner
// (cmd/verif): one OS process per worker, JSON lines on stdout.
package main

import (
	"bufio"
	"encoding/json"
	"flag"
	"fmt"
	"os"
	"os/signal"
	"path/filepath"
	"syscall"
	"time"

	"github.com/spq/pkappa2/verif/sim"
)

type outLine struct {
	sim.RunResult
	Plan   json.RawMessage `json:"plan,omitempty"`
	WallMS int64           `json:"wall_ms"`
}

func main() {
	engine := flag.String("engine", "", "engine name")
	prop := flag.String("prop", "", "property id")
	tier := flag.String("tier", "quick", "tier")
	seed := flag.Uint64("seed", 1, "VERIF_SEED")
	from := flag.Uint64("from", 0, "first run index")
	stride := flag.Uint64("stride", 1, "run index stride")
	maxRuns := flag.Uint64("runs", 1<<62, "max runs for this worker")
	budget := flag.Duration("budget", time.Minute, "wall clock budget")
	scratch := flag.String("scratch", "", "scratch dir")
	replay := flag.String("replay", "", "replay file")
	minimise := flag.String("minimise", "", "replay file to minimise")
	minOut := flag.String("minout", "", "output for minimised replay file")
	minBudget := flag.Int("minbudget", 300, "max executions while minimising")
	flag.Parse()
	// write-error faults use RLIMIT_FSIZE; the signal that comes with it is ignored
	signal.Ignore(syscall.SIGXFSZ)
	if *scratch == "" {
		d, err := os.MkdirTemp("", "simworker")
		if err != nil {
			fmt.Fprintln(os.Stderr, err)
			os.Exit(2)
		}
		*scratch = d
		defer os.RemoveAll(d)
	}
	os.MkdirAll(*scratch, 0o755)
	w := bufio.NewWriter(os.Stdout)
	defer w.Flush()
	enc := json.NewEncoder(w)

	if *replay != "" || *minimise != "" {
		fn := *replay
		if fn == "" {
			fn = *minimise
		}
		b, err := os.ReadFile(fn)
		if err != nil {
			fmt.Fprintln(os.Stderr, err)
			os.Exit(2)
		}
		var rf sim.ReplayFile
		if err := json.Unmarshal(b, &rf); err != nil {
			fmt.Fprintln(os.Stderr, err)
			os.Exit(2)
		}
		e := engines[rf.Engine]
		if e == nil {
			fmt.Fprintf(os.Stderr, "unknown engine %q\n", rf.Engine)
			os.Exit(2)
		}
		dir := filepath.Join(*scratch, "replay")
		res := e.Execute(rf.Plan, dir)
		sim.ReapChildren()
		os.RemoveAll(dir)
		if *minimise != "" {
			if res.Viol == nil || res.Viol.Key() != (&sim.Violation{Property: rf.Property, Oracle: rf.Oracle, Signature: rf.Signature}).Key() {
				enc.Encode(outLine{RunResult: res})
				w.Flush()
				fmt.Fprintln(os.Stderr, "minimise: violation did not reproduce")
				os.Exit(3)
			}
			plan, mres, n := sim.Minimise(e, rf.Plan, res, *scratch, *minBudget)
			rf.Plan = plan
			rf.Minimised = true
			rf.Message = mres.Viol.Message
			rf.Steps = mres.Steps
			ob, _ := json.MarshalIndent(rf, "", " ")
			if err := os.WriteFile(*minOut, ob, 0o644); err != nil {
				fmt.Fprintln(os.Stderr, err)
				os.Exit(2)
			}
			fmt.Fprintf(os.Stderr, "minimise: %d executions\n", n)
			enc.Encode(outLine{RunResult: mres})
			return
		}
		enc.Encode(outLine{RunResult: res})
		w.Flush()
		if res.Infra != "" {
			os.Exit(2)
		}
		if res.Viol != nil {
			fmt.Printf("VIOLATION property=%s replay=%s\n", res.Viol.Property, fn)
			if res.Viol.Key() == (&sim.Violation{Property: rf.Property, Oracle: rf.Oracle, Signature: rf.Signature}).Key() {
				os.Exit(1)
			}
			os.Exit(4) // a different violation
		}
		return
	}

	e := engines[*engine]
	if e == nil {
		fmt.Fprintf(os.Stderr, "unknown engine %q\n", *engine)
		os.Exit(2)
	}
	deadline := time.Now().Add(*budget)
	n := uint64(0)
	for run := *from; n < *maxRuns && time.Now().Before(deadline); run += *stride {
		n++
		fmt.Fprintf(w, "{\"start\":%d}\n", run)
		w.Flush()
		fmt.Fprintf(os.Stderr, "RUN %d BEGIN\n", run)
		plan := e.Generate(*prop, *tier, *seed, run)
		dir := filepath.Join(*scratch, fmt.Sprintf("run%d", run))
		t0 := time.Now()
		res := e.Execute(plan, dir)
		sim.ReapChildren()
		os.RemoveAll(dir)
		res.Seed, res.Run = *seed, run
		ol := outLine{RunResult: res, WallMS: time.Since(t0).Milliseconds()}
		if res.Viol != nil || res.Infra != "" {
			ol.Plan = plan
		}
		enc.Encode(ol)
		w.Flush()
		if res.Counters["fatal"] > 0 {
			// the process state is unusable after a hang
			w.Flush()
			os.Exit(5)
		}
	}
}
