package main

import (
	"fmt"
	"regexp"
	"sort"
	"strings"

	"github.com/spq/pkappa2/verif/sim"
)

var runMarker = regexp.MustCompile(`^RUN (\d+) BEGIN$`)

// parseRaces splits race detector output into reports and derives a
// signature (unordered pair of the first repository frames of the two
// accesses) for each report that involves repository code.
var managerMethod = regexp.MustCompile(`\(\*Manager\)\.(\w+)`)

func parseRaces(stderr string) (sigs map[string]string, runOf map[string]uint64, harnessOnly int) {
	sigs = map[string]string{}
	runOf = map[string]uint64{}
	cur := uint64(0)
	lines := strings.Split(stderr, "\n")
	for i := 0; i < len(lines); i++ {
		if m := runMarker.FindStringSubmatch(lines[i]); m != nil {
			fmt.Sscan(m[1], &cur)
			continue
		}
		if !strings.HasPrefix(lines[i], "WARNING: DATA RACE") {
			continue
		}
		j := i + 1
		var block []string
		for ; j < len(lines) && !strings.HasPrefix(lines[j], "=================="); j++ {
			block = append(block, lines[j])
		}
		// the first two stanzas are the two accesses
		var stanzas [][]string
		var st []string
		for _, l := range block {
			if strings.TrimSpace(l) == "" {
				if len(st) > 0 {
					stanzas = append(stanzas, st)
					st = nil
				}
				continue
			}
			st = append(st, l)
		}
		if len(st) > 0 {
			stanzas = append(stanzas, st)
		}
		var fr []string
		repo := false
		listener := false
		for k := 0; k < len(stanzas) && k < 2; k++ {
			for _, l := range stanzas[k][1:] {
				if strings.Contains(l, "encoding/json.Marshal(") {
					// the harness's event listener encodes every event, as the websocket handler does
					listener = true
				}
			}
		}
		for k := 0; k < len(stanzas) && k < 2; k++ {
			f := "?"
			inLoop := false
			loopFn := ""
			for _, l := range stanzas[k][1:] {
				t := strings.TrimSpace(l)
				if m := managerMethod.FindStringSubmatch(t); m != nil && loopFn == "" {
					loopFn = m[1]
				}
				if strings.HasPrefix(t, "github.com/spq/pkappa2/internal/index/manager.New.func1(") {
					// the access happens inside the service loop
					inLoop = true
				}
				if f == "?" && (strings.HasPrefix(t, "github.com/spq/pkappa2/internal") || strings.HasPrefix(t, "github.com/spq/pkappa2/cmd")) {
					if p := strings.LastIndex(t, "("); p > 0 {
						t = t[:p]
					}
					f = strings.TrimPrefix(t, "github.com/spq/pkappa2/")
					repo = true
				}
			}
			if inLoop {
				// which closure of the manager runs in the loop is incidental
				if strings.HasPrefix(f, "internal/index/manager.") || f == "?" {
					f = "<service loop>"
					if listener && loopFn != "" {
						// ... except against an event listener: the event of that call is what is shared
						f = "<service loop>" + loopFn
						repo = true
					}
				} else {
					f = "<service loop>" + f
				}
			} else if f == "?" && listener {
				f = "<event listener>"
			}
			fr = append(fr, f)
		}
		i = j
		if !repo {
			harnessOnly++
			continue
		}
		sort.Strings(fr)
		sig := strings.Join(fr, " <-> ")
		if _, ok := sigs[sig]; !ok {
			sigs[sig] = strings.Join(block, "\n")
			runOf[sig] = cur
		}
	}
	return
}

func (a *agg) addRaces(stderr, prop string, seed uint64, inFlight int64) {
	sigs, runOf, harnessOnly := parseRaces(stderr)
	a.mu.Lock()
	defer a.mu.Unlock()
	a.counters["race_reports_harness_only"] += int64(harnessOnly)
	for sig, block := range sigs {
		v := &sim.Violation{Property: prop, Oracle: "race", Signature: sig, Message: "DATA RACE: " + sig}
		k := v.Key()
		a.counters["race_reports"]++
		if knownSet[k] {
			a.knownHit[k]++
			if _, ok := a.knownMsg[k]; !ok {
				a.knownMsg[k] = fmt.Sprintf("run %d", runOf[sig])
			}
			continue
		}
		if _, ok := a.viols[k]; !ok {
			a.viols[k] = &outLine{RunResult: sim.RunResult{Seed: seed, Run: runOf[sig], Viol: v, Log: []string{block}}}
		}
		a.violN[k]++
	}
}

var knownSet = map[string]bool{}
