// verif is the check runner: it instruments the current /repo tree (simgen),
// builds the simulation worker from it, runs seeded simulations on all cores,
// minimises and re-replays violations, matches known findings and writes the
// evidence file. Exit codes: 0 held, 1 violation, 2 infrastructure trouble.
package main

import (
	"bufio"
	"bytes"
	"encoding/json"
	"fmt"
	"os"
	"os/exec"
	"path/filepath"
	"runtime"
	"sort"
	"strconv"
	"strings"
	"sync"
	"syscall"
	"time"

	"github.com/spq/pkappa2/verif/sim"
)

type checkCfg struct {
	Engine2      string // second engine: every third worker runs it (every Engine2Every-th if set)
	Engine2Every int
	Engine       string
	Race         bool
	QuickS       int
	ThoroughS    int
	Level        string
	Rule         string
	Real, Stub   []string
	Assume       []string
}

var realCommon = []string{"manager (service loop, jobs, views)", "builder + gopacket reassembly + libpcap (cgo)", "index writer/reader/merger/search", "query parser", "converters (cache file, process pool, JSON protocol) with a real child process", "tools"}
var stubCommon = []string{"job scheduling and loop barriers (controller)", "wall clock (simrt.Now)", "tag event ticker", "map iteration order (seeded)", "runtime.NumCPU", "captured traffic (netsim)", "converter directory watcher (inotify): watches nothing, its remove/create/change closures are delivered by the controller", "watch-directory ingestion, PCAP-over-IP sockets, webhooks, websocket fan-out: not exercised"}

var checks = map[string]checkCfg{
	"C05": {Engine: "bsim", Engine2: "mgrsim", Engine2Every: 2, QuickS: 35, ThoroughS: 900, Level: "exploration",
		Rule:   "one case = one seeded capture (1-12 TCP/UDP v4/v6 conversations with known ground truth, path faults: segmentation, bounded reordering, retransmission, interleaving; 1-6 capture files cut at seeded packet positions; seeded chronological import batching; seeded snapshot interval). distinct = distinct hash of (conversation shapes, cuts, batching); non-trivial = more than one capture file or a conversation spanning files. Every second worker runs the mgrsim engine instead: the same kind of traffic is imported through the real service under a seeded schedule (merges, failing merges and imports, disk full, empty and garbage uploads, clean restarts) and every view is compared with a one-shot import of the captures reported processed",
		Real:   []string{"builder.FromPcap", "gopacket reassembly", "udpreassembly", "libpcap (cgo) reading real pcap/pcapng files", "index writer/reader", "second engine: the whole manager (as in C10)"},
		Stub:   []string{"network path and capture tap (netsim)", "wall clock", "map order", "second engine: job scheduling, clock, map order (controller)"},
		Assume: []string{"netsim ground truth is what the endpoints exchanged", "well-formed traffic only: no capture loss, no conflicting overlaps, no IP fragments, handshake-complete TCP"}},
	"C08": {Engine: "bsim", Engine2: "mgrsim", Engine2Every: 2, QuickS: 60, ThoroughS: 900, Level: "exploration",
		Rule:   "one case = one seeded capture set and 2-5 import histories (partition into batches x arrival order chronological/reversed/shuffled x importer restarts x snapshot files kept or dropped x snapshot interval 5..200 packets or shipped 100000), each compared with a one-shot import up to stream numbering, plus id stability after every batch; in a quarter of the histories the snapshot file of one batch cannot be created; a UDP flow that falls silent for longer than the inactivity timeout and resumes. distinct = distinct hash of (capture shape, histories); non-trivial = more than one file or a conversation spanning files. Every second worker runs mgrsim: the captures are imported through the service in seeded batches and orders with merges, restarts and disk errors in between, and every view is compared with a one-shot import of the captures reported processed",
		Real:   []string{"builder.FromPcap / builder.New", "snapshots save/load", "index writer/reader", "libpcap", "second engine: the whole manager"},
		Stub:   []string{"network path and capture tap (netsim)", "wall clock", "map order", "snapshot interval knob"},
		Assume: []string{"the one-shot import is the reference (tied to ground truth by C05)"}},
	"C06": {Engine: "mgrsim", QuickS: 60, ThoroughS: 1200, Level: "exploration",
		Rule: "one case = one seeded plan (capture set, 4-20 tag/mark/converter API calls, import batches, view operations) under one seeded schedule of api/body/post/tick steps; after every step the incremental tag state and a freshly opened view (shown tags, tag searches) are compared with a from-scratch evaluation of every definition. distinct = distinct schedule signature (step labels with api ops abstracted to their kind); non-trivial = an import, API call or merge was applied while another job was in flight",
		Real: realCommon, Stub: stubCommon,
		Assume: []string{"one quiescent index.SearchStreams evaluation of a definition is the reference (C02/C04 are not claimed)", "converter-reading definitions are not judged while a converter job is between body and completion"}},
	"C07": {Engine: "mgrsim", Engine2: "bsim", QuickS: 40, ThoroughS: 1200, Level: "exploration",
		Rule: "one case = one seeded plan and schedule; at every applied merge completion the visible state (all streams with metadata, payload, packet references, shown tags) and a battery of ~20 searches is taken through fresh views immediately before and after and must be identical; views held across a merge must answer as before; every third worker (bsim) stacks independent imports in a seeded order, merges every suffix with index.Merge, merges the result again and compares visible streams and a search battery that includes time-bound searches with bounds taken from the streams. distinct = distinct schedule signature; non-trivial = at least one merge was applied",
		Real: realCommon, Stub: stubCommon,
		Assume: []string{"searches in the battery use total sort orders (unique first-packet times by construction, id as last key)"}},
	"C09": {Engine: "mgrsim", QuickS: 60, ThoroughS: 1200, Level: "exploration",
		Rule: "one case = one seeded plan and schedule including slow jobs, converter failures (exit, protocol violation), corrupt/empty uploads, create errors and disk full during import/merge bodies, in run indices 1 mod 3 a gate inside the converter job (between two rounds of conversions); after the last API call the controller keeps choosing enabled background steps until none is enabled; violation = a step that never returns (watchdog 30 s), more than 200+40(T+1)(F+C+1) drain steps, or no step enabled while queue/flags/uncertain/to-convert are non-empty. distinct = distinct schedule signature; non-trivial = overlap of jobs and API calls",
		Real: realCommon, Stub: stubCommon,
		Assume: []string{"watchdog 30 s real time is far above the slowest step (<1 s)"}},
	"C10": {Engine: "mgrsim", QuickS: 60, ThoroughS: 1200, Level: "exploration",
		Rule: "one case = one seeded plan and schedule; views are opened at seeded steps (empty service, between import body and completion, across merges) and compared (a) with a one-shot reference import of exactly the captures whose completion was applied, (b) with themselves at every later read (stream list and a fixed battery of searches, three of them read page by page: no stream twice, none foreign, unfiltered searches complete; by-id lookups return the listed version and nothing the view does not list). distinct = distinct schedule signature; non-trivial = a view was opened while jobs were in flight or re-read after further steps",
		Real: realCommon, Stub: stubCommon,
		Assume: []string{"a view counts as opened at its first use", "one-shot import is the reference (C05/C08)"}},
	"C11": {Engine: "mgrsim", QuickS: 40, ThoroughS: 1200, Level: "exploration",
		Rule: "one case = one seeded sequence of valid and invalid tag API calls (bad names, dangling/self/cyclic references, marks on stream 0 and unknown ids, unknown converters, renames onto existing names) interleaved with jobs, a quarter of the plans with a clean restart in between; after every call the tag table projection is compared with a model (rejected => unchanged, accepted => exactly the requested change), the graph is checked (no dangling reference, no cycle, referenced mirrors definitions), a mark operation must leave a definition that is a query and denotes the tag's decided matches, and streams added to a mark tag by acknowledged calls must stay marked until a call takes them back; a crash of the worker or a watchdog timeout is a violation. distinct = distinct schedule signature",
		Real: realCommon, Stub: stubCommon,
		Assume: []string{"which of {applied, rejected} happens is only prescribed where the property names it"}},
	"C12": {Engine: "mgrsim", Engine2: "cachesim", Engine2Every: 6, QuickS: 60, ThoroughS: 1500, Level: "fault_enumeration",
		Rule: "one case = one crash state: during a seeded run the data directory is copied at every I/O point (file create/write/flush/close/remove in manager, builder, index writer, snapshots, cache file) at which the tree changed, plus torn tails of the file being written; each distinct tree is restarted with manager.New, drained and compared with the model as of the snapshot instant (acknowledged tags/settings/endpoints, streams of applied imports under old ids with reference content, converged tags). Clean Close+New restarts are the fault-free configuration. An API call acknowledged while the disk is full must survive a kill taken right after it. After a restart every connection of a one-shot import of the completed captures must be visible and the referenced-by relation of tags must be as before. Every third worker (cachesim) records a converter cache file at every I/O point of store/invalidate/reset/reopen (also inside compaction, torn in-place writes), restarts every state, judges it and continues it with further operations and another restart. distinct = distinct tree hash restarted",
		Real: realCommon, Stub: stubCommon,
		Assume: []string{"crash = process kill: the directory contents at that instant are the durable state (the code does not fsync)"}},
	"C13": {Engine: "mgrsim", Engine2: "httpsim", Engine2Every: 4, QuickS: 40, ThoroughS: 1200, Level: "exploration",
		Rule: "one case = one seeded plan and schedule with views held across imports, merges, tag and converter jobs; after every step: served and view files exist, use counts >= holders, every held view re-reads identically; at quiescence directory == served + view files and counts are exact; after releasing all views directory == served. distinct = distinct schedule signature; non-trivial = a view was held across a merge or opened during jobs",
		Real: realCommon, Stub: stubCommon,
		Assume: []string{"what jobs hold is internal: equalities only when no job exists"}},
	"C15": {Engine: "cachesim", QuickS: 25, ThoroughS: 900, Level: "fault_enumeration",
		Rule:   "one case = one seeded operation history on the real cache file (store with arbitrary chunk lists, invalidate, reset, reopen, compaction at seeded and shipped thresholds) compared with a map model after every operation; after a store the file is copied and truncated at every byte offset of the structured parts of the appended record (sampled inside long payload bodies) and must open and serve all complete records; in two thirds of the runs the file is recorded at every I/O point of every operation, every state that is a truncation of an append is restarted, judged and continued with three more operations and another reopen; a third of the runs make one store fail with a full disk; kill states include the temporary file of a compaction; reads are made with a second caller (reset + store of another stream) standing by at every lock release by statement (none on the shipped code). distinct = distinct (history hash) ; crash states counted separately",
		Real:   []string{"converters.cacheFile (all of it)"},
		Stub:   []string{"compaction threshold knob", "no converter process (records are generated)"},
		Assume: []string{"zero-length chunks carry no data and may vanish"}},
	"C16": {Engine: "mgrsim", QuickS: 60, ThoroughS: 1200, Level: "exploration",
		Rule: "one case = one seeded plan with the harness converter attached/detached/reset, imports extending converted streams, on-demand conversions, transient converter failures, under a seeded schedule; after every step every cached output seen through a fresh view must carry the digest of that view's payload; at quiescence every decided match of a tag with a converter has output. Run indices 1 mod 3 park the converter job also between two rounds of conversions (steps of other actors land inside the job); some of those are quiet plans (one or two tags sharing a converter, captures imported in order, a late detach). distinct = distinct schedule signature; non-trivial = a converter job ran",
		Real: realCommon, Stub: stubCommon,
		Assume: []string{"the harness converter prints a digest of its whole input"}},
	"C19": {Engine: "httpsim", QuickS: 30, ThoroughS: 600, Level: "exploration",
		Rule:   "one case = 2-3 concurrent uploads (same and different names) with bodies delivered chunk by chunk in a seeded interleaving, client aborts, downloads, and request paths from a path grammar; the tree outside the capture directory must be byte-identical, existing names keep their bytes, at most one upload per name succeeds, imports queued == 200 responses (a stored upload that is no capture is queued once and not listed). Handlers yield at their file operations; the service's import/merge jobs park at gates and background steps are part of the schedule. distinct = distinct interleaving signature",
		Real:   []string{"cmd/pkappa2 setupRouter (chi routes, handlers)", "manager, builder, index (simulation mode: jobs under gates)"},
		Stub:   []string{"HTTP transport (in-process ServeHTTP, gated request bodies)", "job scheduling, clock, map order"},
		Assume: []string{"input-space coverage of path encodings is not claimed"}},
	"C20": {Engine: "mgrsim", Race: true, QuickS: 60, ThoroughS: 1200, Level: "exploration",
		Rule: "one case = one seeded plan and schedule executed under the Go race detector with a happens-before-transparent control plane (raw-syscall pipes), 4 converter processes, an event listener and ticker steps; any DATA RACE report with a repository frame is a violation, signature = the pair of racing functions. Two run indices in seven also feed packets to the PCAP-over-IP packet handler (socket and libpcap reader replaced; handler, capture writer and queued import real, outside the schedule). distinct = distinct schedule signature",
		Real: realCommon, Stub: stubCommon,
		Assume: []string{"the Go race detector; raw read/write system calls create no happens-before edges (probed)"}},
}

type knownFinding struct {
	Property  string `json:"property"`
	Status    string `json:"status"`
	Signature string `json:"signature"`
	What      string `json:"what"`
	Commit    string `json:"commit,omitempty"`
}

type outLine struct {
	sim.RunResult
	Plan   json.RawMessage `json:"plan,omitempty"`
	WallMS int64           `json:"wall_ms"`
	Start  *uint64         `json:"start,omitempty"`
	Engine string          `json:"-"` // set for crashes (no plan to tell the engine from)
}

var verifDir = "/verif"

// outDir receives evidence/ and replays/; it differs from verifDir only when a
// check is pointed at another tree (VERIF_REPO, seeded changes), so that such
// runs never overwrite the evidence of the registered checks.
var outDir = "/verif"

func die(code int, format string, a ...any) {
	fmt.Fprintf(os.Stderr, "verif: "+format+"\n", a...)
	os.Exit(code)
}

func envInt(name string, def int) int {
	if v := os.Getenv(name); v != "" {
		if n, err := strconv.Atoi(v); err == nil {
			return n
		}
	}
	return def
}

func main() {
	if len(os.Args) < 2 {
		die(2, "usage: verif check <ID> [--tier quick|thorough] | replay <file> | build")
	}
	if d := os.Getenv("VERIF_DIR"); d != "" {
		verifDir = d
	}
	outDir = verifDir
	if d := os.Getenv("VERIF_OUT"); d != "" {
		outDir = d
	}
	switch os.Args[1] {
	case "check":
		if len(os.Args) < 3 {
			die(2, "check needs a property id")
		}
		tier := os.Getenv("VERIF_TIER")
		for i := 3; i < len(os.Args); i++ {
			if os.Args[i] == "--tier" && i+1 < len(os.Args) {
				tier = os.Args[i+1]
			}
		}
		if tier == "" {
			tier = "quick"
		}
		os.Exit(runCheck(os.Args[2], tier))
	case "replay":
		if len(os.Args) < 3 {
			die(2, "replay needs a file")
		}
		os.Exit(runReplay(os.Args[2]))
	default:
		die(2, "unknown command %q", os.Args[1])
	}
}

type build struct {
	scratch    string
	httpWorker string // the cmd/pkappa2 test binary (httpsim engine)
	worker     string
	vconv      string
	goBin      string
	env        []string
}

func goEnv() (string, []string) {
	goBin := os.Getenv("VERIF_GO")
	if goBin == "" {
		goBin = "/root/go/pkg/mod/golang.org/toolchain@v0.0.1-go1.25.0.linux-amd64/bin/go"
		if _, err := os.Stat(goBin); err != nil {
			if p, err := exec.LookPath("go1.26.8"); err == nil {
				goBin = p
			} else {
				goBin = "go"
			}
		}
	}
	env := append(os.Environ(), "GOFLAGS=-mod=mod", "GOPROXY=off", "GOSUMDB=off", "GOTOOLCHAIN=local", "CGO_ENABLED=1")
	return goBin, env
}

func run(dir string, env []string, name string, args ...string) (string, error) {
	cmd := exec.Command(name, args...)
	cmd.Dir = dir
	cmd.Env = env
	var buf bytes.Buffer
	cmd.Stdout = &buf
	cmd.Stderr = &buf
	err := cmd.Run()
	return buf.String(), err
}

func prepare(race bool, engine, engine2 string) *build {
	goBin, env := goEnv()
	base := scratchBase()
	scratch, err := os.MkdirTemp(base, "verif-")
	if err != nil {
		die(2, "scratch: %v", err)
	}
	os.WriteFile(filepath.Join(scratch, "pid"), []byte(strconv.Itoa(os.Getpid())), 0o644)
	b := &build{scratch: scratch, goBin: goBin, env: env}
	harness := filepath.Join(verifDir, "harness")
	repo := "/repo"
	var modArgs []string
	if r := os.Getenv("VERIF_REPO"); r != "" && r != "/repo" {
		// run against another tree (a scratch worktree with a seeded change)
		repo = r
		gm, err := os.ReadFile(filepath.Join(harness, "go.mod"))
		if err != nil {
			die(2, "%v", err)
		}
		ngm := strings.Replace(string(gm), "=> /repo", "=> "+repo, 1)
		os.WriteFile(filepath.Join(scratch, "go.mod"), []byte(ngm), 0o644)
		gs, _ := os.ReadFile(filepath.Join(repo, "go.sum"))
		os.WriteFile(filepath.Join(scratch, "go.sum"), gs, 0o644)
		modArgs = []string{"-modfile=" + filepath.Join(scratch, "go.mod")}
	}
	simgen := filepath.Join(verifDir, "bin", "simgen")
	if _, err := os.Stat(simgen); err != nil {
		if out, err := run(harness, env, goBin, "build", "-o", simgen, "./simgen"); err != nil {
			os.RemoveAll(scratch)
			die(2, "building simgen failed: %v\n%s", err, out)
		}
	}
	if out, err := run(harness, env, simgen, "-go", goBin, "-repo", repo, "-out", filepath.Join(scratch, "gen"), "-extra", filepath.Join(harness, "extra")); err != nil {
		os.RemoveAll(scratch)
		die(2, "simgen failed (missing anchor or repository does not build): %v\n%s", err, out)
	}
	overlay := filepath.Join(scratch, "gen", "overlay.json")
	b.worker = filepath.Join(scratch, "simworker")
	args := append([]string{"build"}, modArgs...)
	args = append(args, "-tags", "verif", "-overlay", overlay, "-o", b.worker)
	if race {
		args = append(args, "-race")
	}
	args = append(args, "./cmd/simworker")
	httpArgs := append([]string{"test", "-c"}, modArgs...)
	httpArgs = append(httpArgs, "-vet=off", "-tags", "verif", "-overlay", overlay, "-o", filepath.Join(scratch, "httpsim.test"), "github.com/spq/pkappa2/cmd/pkappa2")
	if engine == "httpsim" {
		b.worker = filepath.Join(scratch, "httpsim.test")
		b.httpWorker = b.worker
		args = httpArgs
	}
	if out, err := run(harness, env, goBin, args...); err != nil {
		os.RemoveAll(scratch)
		die(2, "building the instrumented worker failed: %v\n%s", err, out)
	}
	if engine2 == "httpsim" {
		b.httpWorker = filepath.Join(scratch, "httpsim.test")
		if out, err := run(harness, env, goBin, httpArgs...); err != nil {
			os.RemoveAll(scratch)
			die(2, "building the instrumented worker (http) failed: %v\n%s", err, out)
		}
	}
	b.vconv = filepath.Join(scratch, "vconv.bin") // not "vconv": DELETE /api/converters/<name> of a converter that is not loaded looks for an executable called <name> in the working directory
	if out, err := run(harness, env, goBin, "build", "-o", b.vconv, "./cmd/vconv"); err != nil {
		os.RemoveAll(scratch)
		die(2, "building vconv failed: %v\n%s", err, out)
	}
	if keep := os.Getenv("VERIF_KEEP_BUILD"); keep != "" {
		// debugging aid: a copy of the instrumented binaries
		os.MkdirAll(keep, 0o755)
		for _, f := range []string{b.worker, b.vconv, b.httpWorker} {
			if f != "" {
				if data, err := os.ReadFile(f); err == nil {
					os.WriteFile(filepath.Join(keep, filepath.Base(f)), data, 0o755)
				}
			}
		}
	}
	return b
}

// scratchBase picks where the per-check scratch tree lives: $VERIF_SCRATCH,
// else a memory file system when the machine has one with room (the
// simulated runs create and delete thousands of small files; on the
// sandbox's disk that, not the code under test, is what bounds the number of
// runs per second), else $TMPDIR, else /var/tmp. Scratch trees whose check
// process is gone (killed by a timeout) are removed on the way.
func scratchBase() string {
	base := os.Getenv("VERIF_SCRATCH")
	if base == "" {
		var st syscall.Statfs_t
		if err := syscall.Statfs("/dev/shm", &st); err == nil && st.Type == 0x01021994 && uint64(st.Bavail)*uint64(st.Bsize) > 4<<30 {
			if f, err := os.CreateTemp("/dev/shm", "verif-probe"); err == nil {
				f.Close()
				os.Remove(f.Name())
				base = "/dev/shm"
			}
		}
	}
	if base == "" {
		base = os.Getenv("TMPDIR")
	}
	if base == "" {
		base = "/var/tmp"
	}
	if ents, err := os.ReadDir(base); err == nil {
		for _, e := range ents {
			if !e.IsDir() || !strings.HasPrefix(e.Name(), "verif-") {
				continue
			}
			d := filepath.Join(base, e.Name())
			pb, err := os.ReadFile(filepath.Join(d, "pid"))
			if err != nil {
				continue
			}
			if pid, err := strconv.Atoi(strings.TrimSpace(string(pb))); err == nil && syscall.Kill(pid, 0) == syscall.ESRCH {
				os.RemoveAll(d)
			}
		}
	}
	return base
}

func loadKnown() []knownFinding {
	var kf struct {
		Findings []knownFinding `json:"findings"`
	}
	b, err := os.ReadFile(filepath.Join(verifDir, "known_findings.json"))
	if err != nil {
		return nil
	}
	if err := json.Unmarshal(b, &kf); err != nil {
		die(2, "known_findings.json: %v", err)
	}
	return kf.Findings
}

type agg struct {
	mu          sync.Mutex
	runs        int
	counters    map[string]int64
	sched       map[string]bool
	nontriv     map[string]bool
	states      map[string]bool
	simTime     float64
	samples     []json.RawMessage
	viols       map[string]*outLine // first per key
	violN       map[string]int
	infra       []string
	knownHit    map[string]int
	knownMsg    map[string]string
	wallMS      int64
	crashes     []string
	raceReports map[string]string
	hangs       []*outLine
}

func runCheck(prop, tier string) int {
	cfg, ok := checks[prop]
	if !ok {
		die(2, "no check for %s", prop)
	}
	t0 := time.Now()
	seed := uint64(envInt("VERIF_SEED", 1))
	budget := cfg.QuickS
	if tier == "thorough" {
		budget = cfg.ThoroughS
	}
	budget = envInt("VERIF_BUDGET_S", budget)
	workers := envInt("VERIF_WORKERS", runtime.NumCPU())
	b := prepare(cfg.Race, cfg.Engine, cfg.Engine2)
	defer os.RemoveAll(b.scratch)

	known := loadKnown()
	var knownKeys []string
	for _, k := range known {
		if k.Property == prop && k.Status == "known" {
			knownKeys = append(knownKeys, prop+"/"+k.Signature)
		}
	}
	for _, k := range knownKeys {
		knownSet[k] = true
	}
	kj, _ := json.Marshal(knownKeys)
	env := append(b.env, "VERIF_VCONV="+b.vconv, "VERIF_KNOWN="+string(kj))
	if cfg.Race {
		env = append(env, "GORACE=halt_on_error=0 history_size=3")
	}

	a := &agg{counters: map[string]int64{}, sched: map[string]bool{}, nontriv: map[string]bool{}, states: map[string]bool{}, viols: map[string]*outLine{}, violN: map[string]int{}, knownHit: map[string]int{}, knownMsg: map[string]string{}, raceReports: map[string]string{}}
	deadline := time.Now().Add(time.Duration(budget) * time.Second)
	var wg sync.WaitGroup
	for w := 0; w < workers; w++ {
		wg.Add(1)
		go func(w int) {
			defer wg.Done()
			next := uint64(w)
			for time.Now().Before(deadline) {
				next = runWorker(b, env, cfg, prop, tier, seed, next, uint64(workers), deadline, a, w)
			}
		}(w)
	}
	wg.Wait()

	// watchdog expiries outside C09/C11: replay alone with a long watchdog
	maxHangs, hangWatchdog, hangTimeout := 5, "180000", 6*time.Minute
	if tier != "thorough" {
		// the quick tier must stay quick also on an overloaded machine
		maxHangs, hangWatchdog, hangTimeout = 2, "60000", 2*time.Minute
	}
	for i, h := range a.hangs {
		if i >= maxHangs {
			break
		}
		rf := sim.ReplayFile{Property: prop, Engine: engineOf(cfg, h.Plan), Oracle: "infra", Signature: "hang", Seed: h.Seed, Run: h.Run, Plan: h.Plan}
		path := filepath.Join(b.scratch, fmt.Sprintf("hang%d.json", i))
		rb, _ := json.Marshal(rf)
		os.WriteFile(path, rb, 0o644)
		out, _ := runTimeout(hangTimeout, b.scratch, append(append([]string{}, env...), "VERIF_WATCHDOG_MS="+hangWatchdog), b.worker, "-replay", path, "-scratch", filepath.Join(b.scratch, "hangrep"))
		if strings.Contains(out, "\"infra\":\"hang") || strings.Contains(out, "FATAL: hang") {
			a.infra = append(a.infra, fmt.Sprintf("run %d: %s (reproduced alone with a longer watchdog)", h.Run, h.Infra))
		} else {
			a.counters["watchdog_expiry_not_reproduced"]++
		}
	}
	exit := 0
	// determinism probe: the same (seed, run) executed in fresh processes at
	// different GOMAXPROCS must give byte-identical results (steps, schedule
	// and state signatures, counters). A difference is a harness defect: exit 2.
	if cfg.Engine != "httpsim" {
		n := 4
		if tier == "thorough" {
			n = 30
		}
		det := determinismProbe(b, env, cfg, prop, tier, seed, n)
		a.counters["determinism_runs_compared"] = int64(det.compared)
		a.counters["determinism_mismatches"] = int64(len(det.diffs))
		for i, d := range det.diffs {
			if i < 3 {
				fmt.Fprintf(os.Stderr, "verif: nondeterministic replay: %s\n", d)
			}
		}
		if len(det.diffs) > 0 {
			exit = 2
		}
	}
	// infrastructure trouble first
	if len(a.infra) > 0 {
		for i, m := range a.infra {
			if i < 5 {
				fmt.Fprintf(os.Stderr, "verif: infrastructure: %s\n", m)
			}
		}
		exit = 2
	}
	// violations: minimise, re-replay, report
	os.MkdirAll(filepath.Join(outDir, "replays"), 0o755)
	keys := make([]string, 0, len(a.viols))
	for k := range a.viols {
		keys = append(keys, k)
	}
	sort.Strings(keys)
	reported := 0
	for _, k := range keys {
		ol := a.viols[k]
		eng := engineOf(cfg, ol.Plan)
		if ol.Engine != "" {
			eng = ol.Engine
		}
		rf := sim.ReplayFile{Property: ol.Viol.Property, Engine: eng, Oracle: ol.Viol.Oracle, Signature: ol.Viol.Signature, Message: ol.Viol.Message, Seed: ol.Seed, Run: ol.Run, Plan: ol.Plan, Steps: ol.Steps}
		if cfg.Race && len(ol.Log) > 0 {
			rf.Message += "\n" + ol.Log[0]
		}
		name := fmt.Sprintf("%s-%d-%d-%s.json", prop, ol.Seed, ol.Run, sim.Hash(k))
		path := filepath.Join(outDir, "replays", name)
		rb, _ := json.MarshalIndent(rf, "", " ")
		os.WriteFile(path, rb, 0o644)
		if ol.Plan == nil {
			// a crash of the worker: the plan is regenerated from (seed, run)
			fmt.Printf("VIOLATION property=%s replay=%s\n", prop, path)
			fmt.Printf("  %s: %s\n", k, ol.Viol.Message)
			reported++
			continue
		}
		// minimise (bounded), then confirm by replaying the minimised file in a fresh process
		minPath := path + ".min"
		if reported < 4 && !cfg.Race && eng != "httpsim" && !strings.HasPrefix(ol.Viol.Oracle, "hang") {
			out, err := runTimeout(3*time.Minute, b.scratch, env, b.worker, "-minimise", path, "-minout", minPath, "-minbudget", "250", "-scratch", filepath.Join(b.scratch, "min"))
			if err == nil {
				os.Rename(minPath, path)
			} else if strings.Contains(out, "did not reproduce") {
				fmt.Fprintf(os.Stderr, "verif: violation %s of run %d did not reproduce on replay: nondeterminism in the harness\n", k, ol.Run)
				exit = 2
				continue
			}
		}
		if eng == "httpsim" {
			hj, _ := json.Marshal(map[string]any{"replay": path})
			out, _ := runTimeout(3*time.Minute, b.scratch, append(append([]string{}, env...), "VERIF_HTTP="+string(hj)), b.httpWorker, "-test.run", "^TestVerifHTTPSim$", "-test.count=1")
			if !strings.Contains(out, "VIOLATION property=") {
				fmt.Fprintf(os.Stderr, "verif: replay of %s did not reproduce %s\n", path, k)
				exit = 2
				continue
			}
		} else if !cfg.Race {
			_, err := runTimeout(3*time.Minute, b.scratch, env, b.worker, "-replay", path, "-scratch", filepath.Join(b.scratch, "rep"))
			code := exitCode(err)
			// the two step kinds that run in real time (conversion storm, packets fed
			// to the PCAP-over-IP handler) are replayed up to three times
			for try := 0; code != 1 && try < 2 && (bytes.Contains(ol.Plan, []byte(`"k":"Storm"`)) || bytes.Contains(ol.Plan, []byte(`"poip":true`))); try++ {
				_, err = runTimeout(3*time.Minute, b.scratch, env, b.worker, "-replay", path, "-scratch", filepath.Join(b.scratch, "rep"))
				code = exitCode(err)
			}
			if code != 1 {
				fmt.Fprintf(os.Stderr, "verif: replay of %s ended with exit %d instead of reproducing %s\n", path, code, k)
				exit = 2
				continue
			}
		}
		fmt.Printf("VIOLATION property=%s replay=%s\n", prop, path)
		fmt.Printf("  %s x%d: %s\n", k, a.violN[k], ol.Viol.Message)
		reported++
	}
	if reported > 0 {
		exit = 1
	}
	for _, k := range sortedKeys(a.knownHit) {
		what := k
		for _, kf := range known {
			if kf.Property == prop && prop+"/"+kf.Signature == k {
				what = kf.Signature + ": " + kf.What
			}
		}
		fmt.Printf("KNOWN-FINDING: property=%s %s (seen %d times; e.g. %s)\n", prop, what, a.knownHit[k], a.knownMsg[k])
	}
	writeEvidence(prop, tier, seed, cfg, a, time.Since(t0).Seconds(), reported, workers, budget)
	if exit == 0 {
		fmt.Printf("OK property=%s tier=%s runs=%d distinct_schedules=%d wall=%.0fs\n", prop, tier, a.runs, len(a.sched), time.Since(t0).Seconds())
	}
	return exit
}

func realTimePlan(plan []byte) bool {
	return bytes.Contains(plan, []byte(`"k":"Storm"`)) || bytes.Contains(plan, []byte(`"poip":true`))
}

// engineOf tells which engine made a plan (a check may run two engines).
func engineOf(cfg checkCfg, plan []byte) string {
	if cfg.Engine2 == "" {
		return cfg.Engine
	}
	switch {
	case bytes.Contains(plan, []byte(`"reqs"`)):
		return "httpsim"
	case bytes.Contains(plan, []byte(`"sched_seed"`)):
		return "mgrsim"
	case bytes.Contains(plan, []byte(`"cleanup_min"`)):
		return "cachesim"
	case bytes.Contains(plan, []byte(`"hist"`)):
		return "bsim"
	}
	return cfg.Engine
}

func exitCode(err error) int {
	if err == nil {
		return 0
	}
	if ee, ok := err.(*exec.ExitError); ok {
		return ee.ExitCode()
	}
	return -1
}

func runTimeout(d time.Duration, dir string, env []string, name string, args ...string) (string, error) {
	cmd := exec.Command(name, args...)
	cmd.Dir = dir
	cmd.Env = env
	var buf bytes.Buffer
	cmd.Stdout = &buf
	cmd.Stderr = &buf
	if err := cmd.Start(); err != nil {
		return "", err
	}
	done := make(chan error, 1)
	go func() { done <- cmd.Wait() }()
	select {
	case err := <-done:
		return buf.String(), err
	case <-time.After(d):
		cmd.Process.Kill()
		<-done
		return buf.String(), fmt.Errorf("timeout")
	}
}

func sortedKeys[V any](m map[string]V) []string {
	ks := make([]string, 0, len(m))
	for k := range m {
		ks = append(ks, k)
	}
	sort.Strings(ks)
	return ks
}

// runWorker starts one worker process at run index `from` and consumes its
// output; it returns the run index at which the next worker should start.
func runWorker(b *build, env []string, cfg checkCfg, prop, tier string, seed, from, stride uint64, deadline time.Time, a *agg, w int) uint64 {
	left := time.Until(deadline)
	if left <= 0 {
		return from
	}
	scratch := filepath.Join(b.scratch, fmt.Sprintf("w%d", w))
	os.RemoveAll(scratch)
	engine := cfg.Engine
	every := cfg.Engine2Every
	if every == 0 {
		every = 3
	}
	if cfg.Engine2 != "" && w%every == every-1 {
		engine = cfg.Engine2
	}
	cmd := exec.Command(b.worker, "-engine", engine, "-prop", prop, "-tier", tier, "-seed", fmt.Sprint(seed), "-from", fmt.Sprint(from), "-stride", fmt.Sprint(stride), "-runs", "200", "-budget", left.String(), "-scratch", scratch)
	cmd.Env = env
	if engine == "httpsim" {
		os.MkdirAll(scratch, 0o755)
		cmd = exec.Command(b.httpWorker, "-test.run", "^TestVerifHTTPSim$", "-test.count=1", "-test.timeout=0")
		hj, _ := json.Marshal(map[string]any{"seed": seed, "from": from, "stride": stride, "budget_s": int(left.Seconds()), "prop": prop})
		cmd.Env = append(append([]string{}, env...), "VERIF_HTTP="+string(hj), "TMPDIR="+scratch)
	}
	cmd.Dir = b.scratch
	stdout, _ := cmd.StdoutPipe()
	var stderr bytes.Buffer
	cmd.Stderr = &stderr
	if err := cmd.Start(); err != nil {
		a.mu.Lock()
		a.infra = append(a.infra, "cannot start worker: "+err.Error())
		a.mu.Unlock()
		time.Sleep(time.Second)
		return from
	}
	killer := time.AfterFunc(left+45*time.Second, func() { cmd.Process.Kill() })
	defer killer.Stop()
	sc := bufio.NewScanner(stdout)
	sc.Buffer(make([]byte, 1<<20), 1<<28)
	next := from
	inFlight := int64(-1)
	for sc.Scan() {
		var ol outLine
		if err := json.Unmarshal(sc.Bytes(), &ol); err != nil {
			continue
		}
		if ol.Start != nil {
			inFlight = int64(*ol.Start)
			continue
		}
		inFlight = -1
		next = ol.Run + stride
		a.add(&ol)
	}
	err := cmd.Wait()
	os.RemoveAll(scratch)
	code := exitCode(err)
	if cfg.Race {
		a.addRaces(stderr.String(), prop, seed, inFlight)
	}
	if code != 0 && code != 5 && inFlight >= 0 {
		// the worker died inside a run: a crash of the service (or of the harness)
		msg := tail(stderr.String(), 1500)
		run := uint64(inFlight)
		a.mu.Lock()
		if strings.Contains(msg, "panic:") || strings.Contains(msg, "fatal error:") {
			sig := "crash:" + panicSite(msg)
			ol := &outLine{Engine: engine, RunResult: sim.RunResult{Seed: seed, Run: run, Viol: &sim.Violation{Property: prop, Oracle: "crash", Signature: sig, Message: "the process died: " + firstLine(msg, "panic:", "fatal error:")}}}
			// (httpsim: the service died while serving requests — whatever was accepted
			// is not imported, whatever was held is not released)
			if prop == "C11" || prop == "C12" || engine == "httpsim" {
				k := ol.Viol.Key()
				if _, ok := a.viols[k]; !ok {
					a.viols[k] = ol
				}
				a.violN[k]++
			} else {
				a.infra = append(a.infra, fmt.Sprintf("worker crashed in run %d (service panic: see C11): %s", run, firstLine(msg, "panic:", "fatal error:")))
			}
		} else if time.Now().Before(deadline) {
			a.infra = append(a.infra, fmt.Sprintf("worker died in run %d with exit %d: %s", run, code, tail(msg, 300)))
		}
		a.mu.Unlock()
		next = run + stride
	}
	return next
}

func firstLine(s string, prefixes ...string) string {
	for _, l := range strings.Split(s, "\n") {
		for _, p := range prefixes {
			if strings.HasPrefix(l, p) {
				return l
			}
		}
	}
	return tail(s, 200)
}

// panicSite extracts the first repository frame of a panic trace.
func panicSite(s string) string {
	for _, l := range strings.Split(s, "\n") {
		l = strings.TrimSpace(l)
		if strings.HasPrefix(l, "github.com/spq/pkappa2/internal") || strings.HasPrefix(l, "github.com/spq/pkappa2/cmd") {
			if i := strings.LastIndex(l, "("); i > 0 {
				l = l[:i]
			}
			return strings.TrimPrefix(l, "github.com/spq/pkappa2/")
		}
	}
	return "unknown"
}

func tail(s string, n int) string {
	if len(s) > n {
		return s[len(s)-n:]
	}
	return s
}

func (a *agg) add(ol *outLine) {
	a.mu.Lock()
	defer a.mu.Unlock()
	a.runs++
	a.wallMS += ol.WallMS
	for k, v := range ol.Counters {
		if strings.HasPrefix(k, "known:") {
			a.knownHit[strings.TrimPrefix(k, "known:")] += int(v)
			continue
		}
		if k == "max_drain_steps" {
			if v > a.counters[k] {
				a.counters[k] = v
			}
			continue
		}
		a.counters[k] += v
	}
	for k, m := range ol.KnownMsg {
		if _, ok := a.knownMsg[k]; !ok {
			a.knownMsg[k] = m
		}
	}
	if ol.SchedSig != "" {
		a.sched[ol.SchedSig] = true
		if ol.NonTriv {
			a.nontriv[ol.SchedSig] = true
		}
	}
	for _, s := range ol.States {
		a.states[s] = true
	}
	a.simTime += ol.SimTimeS
	if ol.Sample != nil && len(a.samples) < 3 {
		a.samples = append(a.samples, ol.Sample)
	}
	if ol.Infra != "" {
		if strings.HasPrefix(ol.Infra, "hang") && ol.Plan != nil {
			// a watchdog expiry may be a starved machine: re-executed alone at the end
			cp := *ol
			a.hangs = append(a.hangs, &cp)
		} else {
			a.infra = append(a.infra, fmt.Sprintf("run %d: %s", ol.Run, ol.Infra))
		}
	}
	if ol.Viol != nil {
		k := ol.Viol.Key()
		// the occurrence kept for the report: the first one, but one whose plan
		// replays exactly is preferred to one with a real-time step (conversion
		// storm, packets fed to the PCAP-over-IP handler)
		if prev, ok := a.viols[k]; !ok || realTimePlan(prev.Plan) && !realTimePlan(ol.Plan) {
			cp := *ol
			a.viols[k] = &cp
		}
		a.violN[k]++
	}
}

func writeEvidence(prop, tier string, seed uint64, cfg checkCfg, a *agg, wall float64, violations, workers, budget int) {
	faults := map[string]int64{}
	probes := map[string]int64{}
	steps := map[string]int64{}
	other := map[string]int64{}
	for k, v := range a.counters {
		switch {
		case strings.HasPrefix(k, "fault_"):
			faults[strings.TrimPrefix(k, "fault_")] = v
		case strings.HasPrefix(k, "probe_"):
			probes[strings.TrimPrefix(k, "probe_")] = v
		case strings.HasPrefix(k, "step_"):
			steps[strings.TrimPrefix(k, "step_")] = v
		default:
			other[k] = v
		}
	}
	samples := []any{}
	for _, s := range a.samples {
		var v any
		json.Unmarshal(s, &v)
		samples = append(samples, v)
	}
	if len(samples) == 0 {
		samples = append(samples, "no clean run finished within the budget")
	}
	nontriv := len(a.nontriv)
	if cfg.Level == "fault_enumeration" {
		if n := a.counters["crash_states_restarted"]; n > 0 {
			nontriv = int(n)
		}
	}
	rph := 0.0
	if wall > 0 {
		rph = float64(a.runs) / wall * 3600
	}
	ev := map[string]any{
		"property_id": prop,
		"tier":        tier,
		"seed":        seed,
		"level":       cfg.Level,
		"wall_s":      wall,
		"violations":  violations,
		"assumptions": cfg.Assume,
		"coverage": map[string]any{
			"evaluations":         a.runs,
			"distinct_nontrivial": nontriv,
			"rule":                cfg.Rule,
			"samples":             samples,
			"distinct_schedules":  len(a.sched),
			"state_signatures":    len(a.states),
			"runs_per_hour":       rph,
			"seeds":               fmt.Sprintf("VERIF_SEED=%d, run indices 0..%d", seed, a.runs),
			"sim_time_s":          a.simTime,
			"steps_by_kind":       steps,
			"faults_fired":        faults,
			"probes":              probes,
			"counters":            other,
			"components":          map[string]any{"real": cfg.Real, "stub": cfg.Stub},
			"workers":             workers,
			"budget_s":            budget,
			"known_findings_hit":  a.knownHit,
			"race_detector":       cfg.Race,
		},
	}
	os.MkdirAll(filepath.Join(outDir, "evidence"), 0o755)
	b, _ := json.MarshalIndent(ev, "", " ")
	if err := os.WriteFile(filepath.Join(outDir, "evidence", prop+".json"), b, 0o644); err != nil {
		fmt.Fprintf(os.Stderr, "verif: cannot write evidence: %v\n", err)
	}
}

func runReplay(path string) int {
	rb, err := os.ReadFile(path)
	if err != nil {
		die(2, "%v", err)
	}
	var rf sim.ReplayFile
	if err := json.Unmarshal(rb, &rf); err != nil {
		die(2, "%v", err)
	}
	cfg, ok := checks[rf.Property]
	if !ok {
		die(2, "unknown property %s", rf.Property)
	}
	b := prepare(cfg.Race, cfg.Engine, cfg.Engine2)
	defer os.RemoveAll(b.scratch)
	env := append(b.env, "VERIF_VCONV="+b.vconv)
	if rf.Engine == "httpsim" {
		hj, _ := json.Marshal(map[string]any{"replay": path})
		out, _ := runTimeout(5*time.Minute, b.scratch, append(append([]string{}, env...), "VERIF_HTTP="+string(hj)), b.httpWorker, "-test.run", "^TestVerifHTTPSim$", "-test.count=1")
		fmt.Print(out)
		if strings.Contains(out, "VIOLATION property=") {
			return 1
		}
		return 0
	}
	if rf.Plan == nil {
		// crash of the worker: re-run that run index
		var out string
		var err error
		if rf.Engine == "httpsim" {
			hj, _ := json.Marshal(map[string]any{"seed": rf.Seed, "from": rf.Run, "stride": 1, "budget_s": 120, "runs": 1, "prop": rf.Property})
			out, err = runTimeout(5*time.Minute, b.scratch, append(append([]string{}, env...), "VERIF_HTTP="+string(hj)), b.httpWorker, "-test.run", "^TestVerifHTTPSim$", "-test.count=1")
		} else {
			out, err = runTimeout(5*time.Minute, b.scratch, env, b.worker, "-engine", cfg.Engine, "-prop", rf.Property, "-seed", fmt.Sprint(rf.Seed), "-from", fmt.Sprint(rf.Run), "-runs", "1", "-scratch", filepath.Join(b.scratch, "rep"))
		}
		if exitCode(err) != 0 && (strings.Contains(out, "panic:") || strings.Contains(out, "fatal error:")) {
			fmt.Printf("VIOLATION property=%s replay=%s\n", rf.Property, path)
			fmt.Println(tail(out, 1500))
			return 1
		}
		fmt.Println("the crash did not reproduce")
		return 0
	}
	out, err := runTimeout(10*time.Minute, b.scratch, env, b.worker, "-replay", path, "-scratch", filepath.Join(b.scratch, "rep"))
	fmt.Print(out)
	switch exitCode(err) {
	case 0:
		return 0
	case 1, 4:
		return 1
	}
	return 2
}

type detResult struct {
	compared int
	diffs    []string
}

// determinismProbe re-executes n run indices in separate processes at
// GOMAXPROCS 1, 4 and 16 and compares everything but wall-clock fields.
func determinismProbe(b *build, env []string, cfg checkCfg, prop, tier string, seed uint64, n int) detResult {
	var res detResult
	type job struct{ run uint64 }
	var mu sync.Mutex
	var wg sync.WaitGroup
	sem := make(chan struct{}, runtime.NumCPU())
	for i := 0; i < n; i++ {
		wg.Add(1)
		go func(run uint64) {
			defer wg.Done()
			var outs []string
			for _, procs := range []string{"1", "4", "16"} {
				sem <- struct{}{}
				e := append(append([]string{}, env...), "GOMAXPROCS="+procs)
				out, _ := runTimeout(4*time.Minute, b.scratch, e, b.worker, "-engine", cfg.Engine, "-prop", prop, "-tier", tier, "-seed", fmt.Sprint(seed), "-from", fmt.Sprint(run), "-runs", "1", "-scratch", filepath.Join(b.scratch, fmt.Sprintf("det%d-%s", run, procs)))
				<-sem
				norm := ""
				for _, l := range strings.Split(out, "\n") {
					if !strings.HasPrefix(l, "{\"seed\"") {
						continue
					}
					var m map[string]any
					if json.Unmarshal([]byte(l), &m) != nil {
						continue
					}
					delete(m, "wall_ms")
					delete(m, "log")
					nb, _ := json.Marshal(m)
					norm = string(nb)
				}
				outs = append(outs, norm)
			}
			mu.Lock()
			defer mu.Unlock()
			res.compared++
			for k := 1; k < len(outs); k++ {
				if outs[k] != outs[0] {
					res.diffs = append(res.diffs, fmt.Sprintf("run %d differs between GOMAXPROCS=1 and another setting: %s", run, firstDifference(outs[0], outs[k])))
					break
				}
			}
		}(uint64(i) * 7)
	}
	wg.Wait()
	return res
}

func firstDifference(a, b string) string {
	n := len(a)
	if len(b) < n {
		n = len(b)
	}
	for i := 0; i < n; i++ {
		if a[i] != b[i] {
			lo := i - 60
			if lo < 0 {
				lo = 0
			}
			hi := i + 60
			ha, hb := hi, hi
			if ha > len(a) {
				ha = len(a)
			}
			if hb > len(b) {
				hb = len(b)
			}
			return fmt.Sprintf("...%s... vs ...%s...", a[lo:ha], b[lo:hb])
		}
	}
	return fmt.Sprintf("lengths %d vs %d", len(a), len(b))
}
