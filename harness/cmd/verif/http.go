package main
