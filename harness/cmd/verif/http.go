package main

import (
	"fmt"

	"github.com/spq/pkappa2/verif/sim"
)

func runHTTPCheck(prop, tier string, cfg checkCfg, seed uint64, budget int) int {
	fmt.Println("httpsim not built yet")
	return 2
}

func replayHTTP(path string, rf sim.ReplayFile) int { return 2 }
