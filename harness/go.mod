module github.com/spq/pkappa2/verif

go 1.25.0

require (
	github.com/gopacket/gopacket v1.6.1
	github.com/spq/pkappa2 v0.0.0
)

replace github.com/spq/pkappa2 => /repo
