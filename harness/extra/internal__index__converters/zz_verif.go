//go:build verif

// Added to package converters by the verification overlay: a thin exported
// wrapper around the unexported cache file.
package converters

import (
	"time"

	"github.com/spq/pkappa2/internal/index"
	"github.com/spq/pkappa2/internal/tools/bitmask"
)

type VerifCache struct{ cf *cacheFile }

func VerifNewCacheFile(path string) (*VerifCache, error) {
	cf, err := NewCacheFile(path)
	if err != nil {
		return nil, err
	}
	return &VerifCache{cf}, nil
}

func (c *VerifCache) SetData(id uint64, t time.Time, data []index.Data) error {
	return c.cf.setData(id, t, data)
}

func (c *VerifCache) Data(id uint64, t time.Time) ([]index.Data, uint64, uint64, error) {
	return c.cf.data(id, t)
}

func (c *VerifCache) DataForSearch(id uint64) ([2][]byte, [][2]int, uint64, uint64, bool, error) {
	return c.cf.DataForSearch(id)
}

func (c *VerifCache) Contains(id uint64) bool { return c.cf.Contains(id) }
func (c *VerifCache) StreamCount() uint64     { return c.cf.StreamCount() }
func (c *VerifCache) Reset() error            { return c.cf.Reset() }
func (c *VerifCache) Close() error            { return c.cf.Close() }

func (c *VerifCache) Invalidate(ids []uint64) []uint {
	bm := bitmask.LongBitmask{}
	for _, id := range ids {
		bm.Set(uint(id))
	}
	res := c.cf.InvalidateChangedStreams(&bm)
	out := []uint{}
	for i := uint(0); res.Next(&i); i++ {
		out = append(out, i)
	}
	return out
}

func (c *VerifCache) Sizes() (fileSize, freeSize, freeStart int64) {
	return c.cf.fileSize, c.cf.freeSize, c.cf.freeStart
}
