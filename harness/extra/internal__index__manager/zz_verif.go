//go:build verif

// Added to package manager by the verification overlay (never part of the
// shipped build): read-only accessors that run inside the service loop and
// return deep copies.
package manager

import (
	"context"
	"fmt"
	"path/filepath"
	"sort"
	"time"

	"github.com/gopacket/gopacket"
	"github.com/gopacket/gopacket/layers"

	"github.com/spq/pkappa2/internal/index"
	"github.com/spq/pkappa2/internal/index/converters"
	"github.com/spq/pkappa2/internal/query"
	"github.com/spq/pkappa2/internal/tools/bitmask"
	"github.com/spq/pkappa2/verif/simrt"
)

type VerifTag struct {
	Name         string   `json:"name"`
	Definition   string   `json:"def"`
	Color        string   `json:"color"`
	Converters   []string `json:"conv,omitempty"`
	Matches      []uint   `json:"m,omitempty"`
	Uncertain    []uint   `json:"u,omitempty"`
	ReferencedBy []string `json:"refby,omitempty"`
	References   []string `json:"refs,omitempty"`
	DataFeature  bool     `json:"data,omitempty"`
}

type VerifState struct {
	Tags             []VerifTag        `json:"tags"`
	Indexes          []string          `json:"indexes"`
	Used             map[string]uint   `json:"used"`
	StreamsToConvert map[string][]uint `json:"to_convert"`
	Converters       []string          `json:"converters"`
	CachedStreams    map[string]uint64 `json:"cached"`
	ImportJobs       []string          `json:"import_jobs"`
	MergeRunning     bool              `json:"merge"`
	TaggingRunning   bool              `json:"tagging"`
	ConverterRunning bool              `json:"converting"`
	NextStreamID     uint64            `json:"next_id"`
	AllStreams       int               `json:"all_streams"`
	NStreamRecords   int               `json:"n_stream_records"`
	Unmergeable      int               `json:"unmergeable"`
	KnownPcaps       []string          `json:"known_pcaps"`
	StateFile        string            `json:"state_file"`
	Webhooks         []string          `json:"webhooks"`
	Endpoints        []string          `json:"endpoints"`
	Config           Config            `json:"config"`
}

func verifBits(bm bitmask.LongBitmask) []uint {
	out := []uint{}
	for i := uint(0); bm.Next(&i); i++ {
		out = append(out, i)
	}
	return out
}

// VerifBarrier returns after the service loop executed a no-op closure.
func (mgr *Manager) VerifBarrier() {
	c := make(chan struct{})
	mgr.jobs <- func() { close(c) }
	<-c
}

func (mgr *Manager) verifState() VerifState {
	st := VerifState{
		Used:             map[string]uint{},
		StreamsToConvert: map[string][]uint{},
		CachedStreams:    map[string]uint64{},
		ImportJobs:       append([]string{}, mgr.importJobs...),
		MergeRunning:     mgr.mergeJobRunning,
		TaggingRunning:   mgr.taggingJobRunning,
		ConverterRunning: mgr.converterJobRunning,
		NextStreamID:     mgr.nextStreamID,
		AllStreams:       mgr.allStreams.OnesCount(),
		NStreamRecords:   mgr.nStreamRecords,
		Unmergeable:      mgr.nUnmergeableIndexes,
		StateFile:        filepath.Base(mgr.stateFilename),
		Webhooks:         append([]string{}, mgr.pcapProcessorWebhookUrls...),
		Config:           mgr.config,
	}
	for _, e := range mgr.pcapOverIPEndpoints {
		st.Endpoints = append(st.Endpoints, e.Address)
	}
	for _, p := range mgr.builder.KnownPcaps() {
		st.KnownPcaps = append(st.KnownPcaps, p.Filename)
	}
	for _, idx := range mgr.indexes {
		st.Indexes = append(st.Indexes, filepath.Base(idx.Filename()))
	}
	for idx, n := range mgr.usedIndexes {
		st.Used[filepath.Base(idx.Filename())] += n
	}
	for n, bm := range mgr.streamsToConvert {
		st.StreamsToConvert[n] = verifBits(*bm)
	}
	for n, c := range mgr.converters {
		st.Converters = append(st.Converters, n)
		st.CachedStreams[n] = c.Statistics().CachedStreamCount
	}
	sort.Strings(st.Converters)
	for n, t := range mgr.tags {
		vt := VerifTag{
			Name: n, Definition: t.definition, Color: t.color,
			Converters: t.converterNames(),
			Matches:    verifBits(t.Matches), Uncertain: verifBits(t.Uncertain),
			References:  t.referencedTags(),
			DataFeature: t.features.MainFeatures&query.FeatureFilterData != 0 || t.features.SubQueryFeatures&query.FeatureFilterData != 0,
		}
		for r := range t.referencedBy {
			vt.ReferencedBy = append(vt.ReferencedBy, r)
		}
		sort.Strings(vt.ReferencedBy)
		sort.Strings(vt.References)
		st.Tags = append(st.Tags, vt)
	}
	sort.Slice(st.Tags, func(i, j int) bool { return st.Tags[i].Name < st.Tags[j].Name })
	return st
}

// VerifState returns a deep copy of the service state, taken in the loop.
func (mgr *Manager) VerifState() VerifState {
	c := make(chan VerifState)
	mgr.jobs <- func() {
		sv := simrt.Save()
		st := mgr.verifState()
		simrt.Restore(sv)
		c <- st
	}
	return <-c
}

// VerifRecompute evaluates every tag's current definition from scratch over
// the current index stack and converter caches (DESIGN §3.1), bottom-up along
// tag references. It does not modify service state.
func (mgr *Manager) VerifRecompute() (map[string][]uint, map[string]string) {
	type out struct {
		g map[string][]uint
		e map[string]string
	}
	c := make(chan out)
	mgr.jobs <- func() {
		sv := simrt.Save()
		g := map[string][]uint{}
		errs := map[string]string{}
		fresh := map[string]query.TagDetails{}
		convs := map[string]index.ConverterAccess{}
		for n, cv := range mgr.converters {
			convs[n] = cv
		}
		names := make([]string, 0, len(mgr.tags))
		for n := range mgr.tags {
			names = append(names, n)
		}
		sort.Strings(names)
		done := map[string]bool{}
		for progress := true; progress; {
			progress = false
		next:
			for _, n := range names {
				if done[n] {
					continue
				}
				t := mgr.tags[n]
				for _, r := range t.referencedTags() {
					if _, ok := mgr.tags[r]; !ok {
						errs[n] = fmt.Sprintf("references missing tag %q", r)
						done[n] = true
						progress = true
						continue next
					}
					if !done[r] {
						continue next
					}
				}
				done[n] = true
				progress = true
				q, err := query.Parse(t.definition)
				if err != nil {
					errs[n] = "parse: " + err.Error()
					continue
				}
				if len(q.Conditions) == 0 {
					errs[n] = "impossible"
				}
				res, _, _, err := index.SearchStreams(context.Background(), mgr.indexes, nil, q.ReferenceTime, q.Conditions, nil, []query.Sorting{{Key: query.SortingKeyID, Dir: query.SortingDirAscending}}, 0, 0, fresh, convs, false)
				if err != nil {
					errs[n] = "search: " + err.Error()
					continue
				}
				bm := bitmask.LongBitmask{}
				ids := []uint{}
				for _, s := range res {
					bm.Set(uint(s.ID()))
					ids = append(ids, uint(s.ID()))
				}
				sort.Slice(ids, func(i, j int) bool { return ids[i] < ids[j] })
				g[n] = ids
				fresh[n] = query.TagDetails{Matches: bm, Conditions: q.Conditions}
			}
		}
		for _, n := range names {
			if !done[n] {
				errs[n] = "reference cycle"
			}
		}
		simrt.Restore(sv)
		c <- out{g, errs}
	}
	o := <-c
	return o.g, o.e
}

// VerifIndexNames forces the view to fetch and returns its index file names.
func (v *View) VerifIndexNames() ([]string, error) {
	if err := v.fetch(); err != nil {
		return nil, err
	}
	names := []string{}
	for _, idx := range v.indexes {
		names = append(names, filepath.Base(idx.Filename()))
	}
	return names, nil
}

// VerifReaders exposes the view's readers (read-only use by the oracle).
func (v *View) VerifReaders() ([]*index.Reader, error) {
	if err := v.fetch(); err != nil {
		return nil, err
	}
	return v.indexes, nil
}

// VerifTagDetails returns the tag snapshot of the view as bit lists.
func (v *View) VerifTagDetails() (map[string][2][]uint, error) {
	if err := v.fetch(); err != nil {
		return nil, err
	}
	out := map[string][2][]uint{}
	for n, td := range v.tagDetails {
		out[n] = [2][]uint{verifBits(td.Matches), verifBits(td.Uncertain)}
	}
	return out, nil
}

// VerifCached reports which payload digest the cached output of converter
// conv for stream id was made for (harness converter only), without
// triggering a conversion.
func (v *View) VerifCached(conv string, id uint64) (string, bool) {
	c, ok := v.converters[conv]
	if !ok {
		return "", false
	}
	data, _, _, _, found, err := c.DataForSearch(id)
	if err != nil {
		return "!err:" + err.Error(), true
	}
	if !found {
		return "", false
	}
	if len(data[0]) == 0 && len(data[1]) == 0 {
		return "empty", true
	}
	for d := 0; d < 2; d++ {
		if len(data[d]) >= 20 && string(data[d][:7]) == "[vconv " && data[d][19] == ']' {
			return string(data[d][7:19]), true
		}
	}
	return "!", true
}

// VerifFeedPcapOverIP hands packets to the PCAP-over-IP packet handler exactly
// as an endpoint reader goroutine does (manager.go: `mgr.pcapOverIPPackets <-
// pcapOverIPPacket{lt, data, ci}`): the socket and libpcap are replaced by the
// caller, the handler, the capture writer and the import they queue are real.
func (mgr *Manager) VerifFeedPcapOverIP(frames [][]byte, timesUS []int64) {
	for i, f := range frames {
		ci := gopacket.CaptureInfo{Timestamp: time.UnixMicro(timesUS[i]), CaptureLength: len(f), Length: len(f)}
		mgr.pcapOverIPPackets <- pcapOverIPPacket{layers.LinkTypeEthernet, f, ci}
	}
}

// VerifConverterFileEvent does what the converter directory watcher does when
// the file of converter name is removed ("remove"), created ("create") or
// written/chmod-ed ("write"): the same closures, posted to the service loop.
// (The watcher itself gets its events from inotify in real time; the harness
// leaves the files alone and delivers the events at steps of the schedule.)
func (mgr *Manager) VerifConverterFileEvent(kind, name string) error {
	path := filepath.Join(mgr.ConverterDir, name)
	c := make(chan error)
	mgr.jobs <- func() {
		var err error
		switch kind {
		case "remove":
			err = mgr.removeConverter(path)
			mgr.event(Event{
				Type: "converterDeleted",
				Converter: &converters.Statistics{
					Name:      name,
					Processes: []converters.ProcessStats{},
				},
			})
		case "create":
			if err = mgr.addConverter(path); err == nil {
				mgr.event(Event{
					Type:      "converterAdded",
					Converter: mgr.converters[name].Statistics(),
				})
			}
		case "write":
			err = mgr.restartConverterProcess(path)
		}
		c <- err
	}
	return <-c
}

