// Package netsim is the simulated network in front of the capture tap
// (DESIGN §2.5): it turns explicit, shrinkable conversation specs into a
// packet sequence with known ground truth, applies per-segment path faults
// (segmentation, bounded reordering, duplication, interleaving) and cuts the
// sequence into capture files.
package netsim

import (
	"bytes"
	"encoding/binary"
	"fmt"
	"net/netip"
	"os"
	"path/filepath"
	"sort"
	"time"

	"github.com/gopacket/gopacket"
	"github.com/gopacket/gopacket/layers"
	"github.com/gopacket/gopacket/pcapgo"
)

type MsgSpec struct {
	Dir    int    `json:"d"`           // 0 client->server, 1 server->client
	Len    int    `json:"n"`           // payload length
	Marker string `json:"m,omitempty"` // marker word placed inside the payload
	Pos    int    `json:"p,omitempty"` // marker position in per-mille of the payload
	GapUS  int64  `json:"g"`           // idle time before this message
}

type ConvSpec struct {
	Proto   string    `json:"proto"` // "tcp" | "udp"
	V6      bool      `json:"v6,omitempty"`
	Client  string    `json:"c"` // addr:port
	Server  string    `json:"s"`
	StartUS int64     `json:"t0"`
	Msgs    []MsgSpec `json:"msgs"`
	Close   string    `json:"close,omitempty"` // tcp: "fin" | "rst" | "" (left open)
	Seed    uint64    `json:"seed"`
	MSS     int       `json:"mss,omitempty"`
	Reorder int       `json:"ro,omitempty"`  // percent of segments displaced
	Window  int       `json:"win,omitempty"` // max displacement
	Dup     int       `json:"dup,omitempty"` // percent of segments retransmitted
	StepUS  int64     `json:"step,omitempty"`
	Late    int       `json:"late,omitempty"` // per cent chance per long burst that its first segment arrives last
}

type Spec struct {
	BaseUnix int64      `json:"base"` // seconds
	Convs    []ConvSpec `json:"convs"`
	// Cuts are packet indices (into the time-ordered global sequence) at
	// which a new capture file starts. File i holds packets [Cuts[i-1],Cuts[i]).
	Cuts []int `json:"cuts"`
	NG   bool  `json:"ng,omitempty"` // write pcapng instead of pcap
	// Jumble: the first packet of every capture file is written a few records
	// later (behind packets of other conversations with later, distinct
	// timestamps): the file is not sorted by time and its oldest packet is not
	// its first, as in captures merged from several interfaces or written in
	// arrival order by the PCAP-over-IP receiver
	Jumble bool `json:"jumble,omitempty"`
	// Overlap: at some rotation points the two neighbouring capture files share
	// a stretch of time — every second packet of the last Overlap packets before
	// the cut goes to the later file and every second packet of the first
	// Overlap packets after it to the earlier one (two capture points, or a
	// receiver writing several sources); each file stays sorted by time
	Overlap int `json:"overlap,omitempty"`
	// TickUS > 0: the tap's clock is coarse, timestamps are rounded down to a
	// multiple of TickUS (many equal timestamps, also across file cuts)
	TickUS int64 `json:"tick,omitempty"`
	// Prefix is put in front of the capture file names
	Prefix string `json:"prefix,omitempty"`
}

type Packet struct {
	TimeUS int64
	Data   []byte // ethernet frame
	Conv   int
	Seq    int // emission order inside the conversation (tie breaker)
}

type Truth struct {
	Conv       int
	Proto      string // "TCP" | "UDP"
	ClientIP   string
	ServerIP   string
	ClientPort uint16
	ServerPort uint16
	Data       [2][]byte
	Dirs       []int // collapsed direction sequence of non-empty messages
	FirstFile  int   // capture file of the first packet
	FirstIndex int   // index of the first packet in that file
	LastFile   int   // capture file of the last packet
	NPackets   int
}

type Capture struct {
	Files   [][]Packet // per file
	Names   []string
	Truth   []Truth
	Packets int
}

type rng struct{ s uint64 }

func (r *rng) next() uint64 {
	r.s += 0x9e3779b97f4a7c15
	x := r.s
	x = (x ^ (x >> 30)) * 0xbf58476d1ce4e5b9
	x = (x ^ (x >> 27)) * 0x94d049bb133111eb
	return x ^ (x >> 31)
}
func (r *rng) intn(n int) int {
	if n <= 0 {
		return 0
	}
	return int(r.next() % uint64(n))
}

const fillAlphabet = "abcdefghijklmnopqrstuvwxyz0123456789 \n"

// Payload is the deterministic application payload of message i.
func Payload(c *ConvSpec, i int) []byte {
	m := c.Msgs[i]
	if m.Len <= 0 {
		return nil
	}
	r := rng{s: c.Seed*1315423911 + uint64(i)*2654435761 + 17}
	b := make([]byte, m.Len)
	for j := range b {
		b[j] = fillAlphabet[r.intn(len(fillAlphabet))]
	}
	if m.Marker != "" && len(m.Marker) <= m.Len {
		pos := (m.Len - len(m.Marker)) * m.Pos / 1000
		copy(b[pos:], m.Marker)
	}
	return b
}

type seg struct {
	dir     int
	flags   string // "S","SA","A","PA","FA","R"
	seq     uint32
	ack     uint32
	payload []byte
}

func serialize(c *ConvSpec, cli, srv netip.AddrPort, dir int, tcp *layers.TCP, udp *layers.UDP, payload []byte) []byte {
	src, dst := cli, srv
	if dir == 1 {
		src, dst = srv, cli
	}
	eth := &layers.Ethernet{
		SrcMAC: []byte{2, 0, 0, 0, 0, byte(1 + dir)},
		DstMAC: []byte{2, 0, 0, 0, 0, byte(2 - dir)},
	}
	var nl gopacket.SerializableLayer
	var netl gopacket.NetworkLayer
	proto := layers.IPProtocolTCP
	if udp != nil {
		proto = layers.IPProtocolUDP
	}
	if src.Addr().Is4() {
		eth.EthernetType = layers.EthernetTypeIPv4
		ip := &layers.IPv4{Version: 4, IHL: 5, TTL: 64, Protocol: proto, SrcIP: src.Addr().AsSlice(), DstIP: dst.Addr().AsSlice(), Flags: layers.IPv4DontFragment}
		nl, netl = ip, ip
	} else {
		eth.EthernetType = layers.EthernetTypeIPv6
		ip := &layers.IPv6{Version: 6, HopLimit: 64, NextHeader: proto, SrcIP: src.Addr().AsSlice(), DstIP: dst.Addr().AsSlice()}
		nl, netl = ip, ip
	}
	buf := gopacket.NewSerializeBuffer()
	opts := gopacket.SerializeOptions{ComputeChecksums: true, FixLengths: true}
	var err error
	if tcp != nil {
		tcp.SrcPort, tcp.DstPort = layers.TCPPort(src.Port()), layers.TCPPort(dst.Port())
		tcp.SetNetworkLayerForChecksum(netl)
		err = gopacket.SerializeLayers(buf, opts, eth, nl, tcp, gopacket.Payload(payload))
	} else {
		udp.SrcPort, udp.DstPort = layers.UDPPort(src.Port()), layers.UDPPort(dst.Port())
		udp.SetNetworkLayerForChecksum(netl)
		err = gopacket.SerializeLayers(buf, opts, eth, nl, udp, gopacket.Payload(payload))
	}
	if err != nil {
		panic(fmt.Sprintf("netsim: serialize: %v", err))
	}
	return append([]byte(nil), buf.Bytes()...)
}

// convPackets emits the packets of one conversation in capture order with
// offsets (µs) relative to the conversation start.
func convPackets(ci int, c *ConvSpec) ([]Packet, Truth) {
	cli, err := netip.ParseAddrPort(c.Client)
	if err != nil {
		panic(err)
	}
	srv, err := netip.ParseAddrPort(c.Server)
	if err != nil {
		panic(err)
	}
	tr := Truth{Conv: ci, ClientIP: cli.Addr().String(), ServerIP: srv.Addr().String(), ClientPort: cli.Port(), ServerPort: srv.Port()}
	r := rng{s: c.Seed ^ 0xabcdef}
	step := c.StepUS
	if step <= 0 {
		step = 100
	}
	var pkts []Packet
	t := c.StartUS
	emit := func(data []byte) {
		pkts = append(pkts, Packet{TimeUS: t, Data: data, Conv: ci, Seq: len(pkts)})
		t += step
	}
	addTruth := func(dir int, p []byte) {
		if len(p) == 0 {
			return
		}
		tr.Data[dir] = append(tr.Data[dir], p...)
		if n := len(tr.Dirs); n == 0 || tr.Dirs[n-1] != dir {
			tr.Dirs = append(tr.Dirs, dir)
		}
	}
	if c.Proto == "udp" {
		tr.Proto = "UDP"
		for i := range c.Msgs {
			m := c.Msgs[i]
			t += m.GapUS
			p := Payload(c, i)
			if i == 0 {
				// the first datagram defines the client
				m.Dir = 0
			}
			emit(serialize(c, cli, srv, m.Dir, nil, &layers.UDP{}, p))
			addTruth(m.Dir, p)
		}
		tr.NPackets = len(pkts)
		return pkts, tr
	}
	tr.Proto = "TCP"
	mss := c.MSS
	if mss <= 0 {
		mss = 1460
	}
	seq := [2]uint32{uint32(r.next()), uint32(r.next())}
	tcpPkt := func(dir int, flags string, payload []byte, sq, ak uint32) []byte {
		tcp := &layers.TCP{Seq: sq, Ack: ak, Window: 65535}
		for _, f := range flags {
			switch f {
			case 'S':
				tcp.SYN = true
			case 'A':
				tcp.ACK = true
			case 'P':
				tcp.PSH = true
			case 'F':
				tcp.FIN = true
			case 'R':
				tcp.RST = true
			}
		}
		return serialize(c, cli, srv, dir, tcp, nil, payload)
	}
	// handshake
	emit(tcpPkt(0, "S", nil, seq[0], 0))
	seq[0]++
	emit(tcpPkt(1, "SA", nil, seq[1], seq[0]))
	seq[1]++
	emit(tcpPkt(0, "A", nil, seq[0], seq[1]))
	for i := range c.Msgs {
		m := c.Msgs[i]
		t += m.GapUS
		p := Payload(c, i)
		if len(p) == 0 {
			continue
		}
		d := m.Dir
		// segmentation
		var segs []seg
		for off := 0; off < len(p); off += mss {
			end := off + mss
			if end > len(p) {
				end = len(p)
			}
			segs = append(segs, seg{dir: d, seq: seq[d] + uint32(off), ack: seq[1-d], payload: p[off:end]})
		}
		// bounded reordering: displace a segment forward by up to Window positions
		order := make([]int, len(segs))
		for k := range order {
			order[k] = k
		}
		if c.Reorder > 0 && len(segs) > 1 {
			w := c.Window
			if w <= 0 {
				w = 3
			}
			for k := 0; k < len(order)-1; k++ {
				if r.intn(100) < c.Reorder {
					j := k + 1 + r.intn(w)
					if j >= len(order) {
						j = len(order) - 1
					}
					// move element k to position j
					e := order[k]
					copy(order[k:j], order[k+1:j+1])
					order[j] = e
				}
			}
		}
		if c.Late > 0 && len(order) >= 18 && r.intn(100) < c.Late {
			// the first segment of a long burst is lost and retransmitted after the
			// whole burst was captured (reordering bounded by the burst length)
			e := order[0]
			copy(order[0:], order[1:])
			order[len(order)-1] = e
		}
		sent := []int{}
		for _, k := range order {
			s := segs[k]
			emit(tcpPkt(d, "PA", s.payload, s.seq, s.ack))
			sent = append(sent, k)
			// retransmission of a segment that was already captured
			if c.Dup > 0 && r.intn(100) < c.Dup {
				q := segs[sent[r.intn(len(sent))]]
				emit(tcpPkt(d, "PA", q.payload, q.seq, q.ack))
			}
		}
		seq[d] += uint32(len(p))
		// receiver acknowledges the burst
		emit(tcpPkt(1-d, "A", nil, seq[1-d], seq[d]))
		addTruth(d, p)
	}
	switch c.Close {
	case "fin":
		emit(tcpPkt(0, "FA", nil, seq[0], seq[1]))
		seq[0]++
		emit(tcpPkt(1, "A", nil, seq[1], seq[0]))
		emit(tcpPkt(1, "FA", nil, seq[1], seq[0]))
		seq[1]++
		emit(tcpPkt(0, "A", nil, seq[0], seq[1]))
	case "rst":
		emit(tcpPkt(0, "RA", nil, seq[0], seq[1]))
	}
	tr.NPackets = len(pkts)
	return pkts, tr
}

// Build produces the capture (files, ground truth) described by spec.
func Build(spec *Spec) *Capture {
	var all []Packet
	truth := make([]Truth, len(spec.Convs))
	for i := range spec.Convs {
		p, tr := convPackets(i, &spec.Convs[i])
		all = append(all, p...)
		truth[i] = tr
	}
	if spec.TickUS > 1 {
		for i := range all {
			all[i].TimeUS -= all[i].TimeUS % spec.TickUS
		}
	}
	sort.SliceStable(all, func(i, j int) bool {
		if all[i].TimeUS != all[j].TimeUS {
			return all[i].TimeUS < all[j].TimeUS
		}
		if all[i].Conv != all[j].Conv {
			return all[i].Conv < all[j].Conv
		}
		return all[i].Seq < all[j].Seq
	})
	cuts := append([]int(nil), spec.Cuts...)
	sort.Ints(cuts)
	capt := &Capture{Truth: truth, Packets: len(all)}
	start := 0
	bounds := []int{}
	for _, c := range cuts {
		if c <= start || c >= len(all) {
			continue
		}
		bounds = append(bounds, c)
		start = c
	}
	bounds = append(bounds, len(all))
	start = 0
	for fi, b := range bounds {
		capt.Files = append(capt.Files, all[start:b])
		ext := "pcap"
		if spec.NG {
			ext = "pcapng"
		}
		capt.Names = append(capt.Names, fmt.Sprintf("%scap%03d.%s", spec.Prefix, fi, ext))
		start = b
	}
	if spec.Overlap > 0 && len(capt.Files) > 1 {
		files := make([][]Packet, len(capt.Files))
		for i, f := range capt.Files {
			files[i] = append([]Packet(nil), f...)
		}
		for i := 0; i+1 < len(files); i += 2 {
			a, b := files[i], files[i+1]
			w := spec.Overlap
			var na, nb []Packet
			for k, p := range a {
				if k >= len(a)-w && (len(a)-k)%2 == 0 {
					nb = append(nb, p)
				} else {
					na = append(na, p)
				}
			}
			for k, p := range b {
				if k < w && k%2 == 1 {
					na = append(na, p)
				} else {
					nb = append(nb, p)
				}
			}
			if len(na) == 0 || len(nb) == 0 {
				continue
			}
			less := func(l []Packet) func(x, y int) bool {
				return func(x, y int) bool { return l[x].TimeUS < l[y].TimeUS }
			}
			sort.SliceStable(na, less(na))
			sort.SliceStable(nb, less(nb))
			files[i], files[i+1] = na, nb
		}
		capt.Files = files
	}
	if spec.Jumble {
		for _, f := range capt.Files {
			j := 0
			for j+1 < len(f) && j < 12 && f[j+1].Conv != f[0].Conv && f[j+1].TimeUS > f[j].TimeUS {
				j++
			}
			if j > 0 {
				p := f[0]
				copy(f[0:j], f[1:j+1])
				f[j] = p
			}
		}
	}
	seenFirst := make([]bool, len(truth))
	for fi, f := range capt.Files {
		for pi, p := range f {
			if !seenFirst[p.Conv] {
				seenFirst[p.Conv] = true
				capt.Truth[p.Conv].FirstFile = fi
				capt.Truth[p.Conv].FirstIndex = pi
			}
			capt.Truth[p.Conv].LastFile = fi
		}
	}
	return capt
}

// WriteFile writes capture file i into dir.
func (c *Capture) WriteFile(spec *Spec, dir string, i int) error {
	var buf bytes.Buffer
	base := time.Unix(spec.BaseUnix, 0)
	if spec.NG {
		w, err := pcapgo.NewNgWriter(&buf, layers.LinkTypeEthernet)
		if err != nil {
			return err
		}
		for _, p := range c.Files[i] {
			ci := gopacket.CaptureInfo{Timestamp: base.Add(time.Duration(p.TimeUS) * time.Microsecond), CaptureLength: len(p.Data), Length: len(p.Data)}
			if err := w.WritePacket(ci, p.Data); err != nil {
				return err
			}
		}
		if err := w.Flush(); err != nil {
			return err
		}
	} else {
		w := pcapgo.NewWriter(&buf)
		if err := w.WriteFileHeader(262144, layers.LinkTypeEthernet); err != nil {
			return err
		}
		for _, p := range c.Files[i] {
			ci := gopacket.CaptureInfo{Timestamp: base.Add(time.Duration(p.TimeUS) * time.Microsecond), CaptureLength: len(p.Data), Length: len(p.Data)}
			if err := w.WritePacket(ci, p.Data); err != nil {
				return err
			}
		}
	}
	return os.WriteFile(filepath.Join(dir, c.Names[i]), buf.Bytes(), 0o644)
}

func (c *Capture) WriteAll(spec *Spec, dir string) error {
	for i := range c.Files {
		if err := c.WriteFile(spec, dir, i); err != nil {
			return err
		}
	}
	return nil
}

var _ = binary.LittleEndian
