package netsim

import (
	"fmt"
	"math/rand/v2"
	"net/netip"
)

var Markers = []string{"FLAG", "alpha", "beta", "GET /", "passwd", "xyzzy"}

type GenConfig struct {
	MaxConvs   int
	MinConvs   int
	MaxFiles   int
	MaxMsgs    int
	MaxPayload int  // per run
	BigMsgs    bool // allow messages > 64 KiB and jumbo segments
	Faults     bool // path faults (reorder, dup)
	UDP        bool
	V6         bool
	LateMarker bool // place some markers only in late messages
	LongLived  bool // some conversations span the whole capture
	LongGaps   bool // idle gaps of 1-3.5 minutes (below the 5 minute inactivity rule)
	CoarseTick bool // coarse capture clock
	Jumble     bool // capture files that are not sorted by time
	Chatty     bool // now and then a flow of thousands of tiny alternating messages
	Talkative  bool // one flow of 60-150 tiny alternating messages (a converter is fed many lines for it)
	Resume     bool // a UDP flow that falls silent for longer than the inactivity rule and then resumes, in a shared reassembly bucket
	LateStarts bool // most conversations start late: later capture files hold more streams than earlier ones (merge cascades)
}

func DefaultGen() GenConfig {
	return GenConfig{MaxConvs: 8, MaxFiles: 5, MaxMsgs: 6, MaxPayload: 60_000, Faults: true, UDP: true, V6: true, LateMarker: true, LongLived: true}
}

// Gen draws a capture spec. All randomness comes from r.
func Gen(r *rand.Rand, cfg GenConfig) *Spec {
	spec := &Spec{BaseUnix: 1_600_000_000 + int64(r.IntN(1000))*3600}
	n := 1 + r.IntN(cfg.MaxConvs)
	if n < cfg.MinConvs {
		n = cfg.MinConvs
	}
	budget := cfg.MaxPayload
	horizon := int64(1+r.IntN(60)) * 1_000_000 // conversations start within this window
	usedPorts := map[uint16]bool{}
	for i := 0; i < n; i++ {
		c := ConvSpec{Seed: r.Uint64(), StartUS: r.Int64N(horizon), StepUS: int64(20 + r.IntN(400))}
		if cfg.LateStarts {
			// density grows towards the end of the capture
			u := r.Float64()
			c.StartUS = int64(float64(horizon) * (1 - u*u*u))
		}
		v6 := cfg.V6 && r.IntN(4) == 0
		c.V6 = v6
		cport := uint16(20000 + r.IntN(20000))
		for usedPorts[cport] {
			cport++
		}
		usedPorts[cport] = true
		sport := []uint16{80, 443, 1337, 8080, 31337, 53}[r.IntN(6)]
		if v6 {
			c.Client = fmt.Sprintf("[fd00::%x]:%d", 1+r.IntN(6), cport)
			c.Server = fmt.Sprintf("[fd00::1:%x]:%d", 1+r.IntN(3), sport)
		} else {
			c.Client = fmt.Sprintf("10.0.%d.%d:%d", r.IntN(3), 1+r.IntN(6), cport)
			c.Server = fmt.Sprintf("10.1.0.%d:%d", 1+r.IntN(3), sport)
		}
		c.Proto = "tcp"
		if cfg.UDP && r.IntN(4) == 0 {
			c.Proto = "udp"
		}
		nm := 1 + r.IntN(cfg.MaxMsgs)
		long := cfg.LongLived && r.IntN(4) == 0
		// one conversation (TCP or UDP) that stays alive far longer than the
		// inactivity timeout without ever being idle that long
		veryLong := cfg.LongGaps && i == 0 && r.IntN(2) == 0
		if veryLong && nm < 4 {
			nm = 4 + r.IntN(3)
		}
		dir := 0
		if r.IntN(5) == 0 && c.Proto == "tcp" {
			dir = 1 // server speaks first
		}
		for j := 0; j < nm; j++ {
			m := MsgSpec{Dir: dir}
			switch k := r.IntN(10); {
			case k < 5:
				m.Len = 1 + r.IntN(200)
			case k < 8:
				m.Len = 200 + r.IntN(3000)
			case k < 9:
				m.Len = 1 + r.IntN(8)
			default:
				m.Len = 3000 + r.IntN(12000)
				if cfg.BigMsgs && r.IntN(3) == 0 {
					m.Len = 60_000 + r.IntN(15_000)
				}
			}
			if c.Proto == "udp" && m.Len > 1400 {
				m.Len = 1 + r.IntN(1400)
			}
			if m.Len > budget {
				m.Len = 1 + budget/4
			}
			budget -= m.Len
			if budget < 0 {
				budget = 0
			}
			if r.IntN(3) == 0 && (!cfg.LateMarker || j >= nm/2 || r.IntN(2) == 0) {
				m.Marker = Markers[r.IntN(len(Markers))]
				m.Pos = r.IntN(1001)
			}
			switch k := r.IntN(10); {
			case k < 6:
				m.GapUS = int64(r.IntN(2000))
			case k < 9:
				m.GapUS = int64(40_000 + r.IntN(400_000)) // crosses the 50 ms chunk rule
			default:
				m.GapUS = int64(1_000_000 + r.IntN(30_000_000))
				if cfg.LongGaps && r.IntN(2) == 0 {
					// a flow that lives longer than the inactivity timeout without ever being idle that long
					m.GapUS = int64(60_000_000 + r.IntN(150_000_000))
				}
			}
			if long {
				m.GapUS += horizon / int64(nm)
			}
			if veryLong && j > 0 {
				m.GapUS = int64(60_000_000 + r.IntN(150_000_000))
			}
			c.Msgs = append(c.Msgs, m)
			// mostly ping-pong, sometimes same direction again
			if r.IntN(5) != 0 {
				dir = 1 - dir
			}
		}
		if c.Proto == "tcp" {
			c.Close = []string{"fin", "fin", "rst", ""}[r.IntN(4)]
			c.MSS = []int{1460, 1460, 536, 100, 7, 1}[r.IntN(6)]
			tot := 0
			for _, m := range c.Msgs {
				tot += m.Len
			}
			if c.MSS == 1 && tot > 300 {
				c.MSS = 100
			}
			if c.MSS == 7 && tot > 3000 {
				c.MSS = 536
			}
			if cfg.BigMsgs && r.IntN(6) == 0 {
				c.MSS = 16000
			}
			if cfg.Faults && r.IntN(2) == 0 {
				c.Reorder = []int{5, 20, 50}[r.IntN(3)]
				c.Window = 1 + r.IntN(8)
			}
			if cfg.Faults && r.IntN(3) == 0 {
				c.Dup = []int{5, 20, 40}[r.IntN(3)]
			}
			if cfg.Faults && r.IntN(4) == 0 {
				c.Late = []int{20, 50}[r.IntN(2)]
			}
		}
		spec.Convs = append(spec.Convs, c)
	}
	// UDP twins: a second flow between the same hosts whose ports hash into the
	// same reassembly bucket (p^1, q^1), short-lived, next to a flow that stays
	// active for longer than the inactivity timeout
	if cfg.UDP && cfg.LongGaps && r.IntN(3) == 0 {
		cp := uint16(21000 + 2*r.IntN(4000))
		sp := uint16(6000 + 2*r.IntN(100))
		host := fmt.Sprintf("10.0.2.%d", 10+r.IntN(5))
		long := ConvSpec{Proto: "udp", Seed: r.Uint64(), Client: fmt.Sprintf("%s:%d", host, cp), Server: fmt.Sprintf("10.1.0.9:%d", sp), StartUS: r.Int64N(2_000_000), StepUS: 100}
		for j := 0; j < 4+r.IntN(3); j++ {
			long.Msgs = append(long.Msgs, MsgSpec{Dir: j % 2, Len: 5 + r.IntN(40), GapUS: int64(100_000_000 + r.IntN(100_000_000))})
		}
		long.Msgs[0].GapUS = 0
		twin := ConvSpec{Proto: "udp", Seed: r.Uint64(), Client: fmt.Sprintf("%s:%d", host, cp^1), Server: fmt.Sprintf("10.1.0.9:%d", sp^1), StartUS: long.StartUS + int64(1_000_000+r.IntN(20_000_000)), StepUS: 100}
		twin.Msgs = []MsgSpec{{Dir: 0, Len: 9}, {Dir: 1, Len: 7, GapUS: 1000}}
		spec.Convs = append(spec.Convs, long, twin)
	}
	// a flow that resumes after the inactivity timeout, next to a flow in the same
	// reassembly bucket that stays active meanwhile (both orders of arrival)
	if cfg.UDP && cfg.Resume && r.IntN(3) == 0 {
		cp := uint16(31000 + 2*r.IntN(4000))
		sp := uint16(7000 + 2*r.IntN(100))
		host := fmt.Sprintf("10.0.2.%d", 40+r.IntN(5))
		long := ConvSpec{Proto: "udp", Seed: r.Uint64(), Client: fmt.Sprintf("%s:%d", host, cp), Server: fmt.Sprintf("10.1.0.9:%d", sp), StartUS: r.Int64N(2_000_000), StepUS: 100}
		for j := 0; j < 7+r.IntN(3); j++ {
			long.Msgs = append(long.Msgs, MsgSpec{Dir: j % 2, Len: 5 + r.IntN(40), GapUS: int64(80_000_000 + r.IntN(100_000_000))})
		}
		long.Msgs[0].GapUS = 0
		res := ConvSpec{Proto: "udp", Seed: r.Uint64(), Client: fmt.Sprintf("%s:%d", host, cp^1), Server: fmt.Sprintf("10.1.0.9:%d", sp^1), StartUS: long.StartUS + int64(1_000_000+r.IntN(20_000_000)), StepUS: 100}
		if r.IntN(2) == 0 {
			res.StartUS = long.StartUS - int64(1+r.IntN(900_000))
			if res.StartUS < 0 {
				res.StartUS = 0
			}
		}
		res.Msgs = []MsgSpec{{Dir: 0, Len: 9}, {Dir: 1, Len: 7, GapUS: 1000}, {Dir: 0, Len: 11, GapUS: int64(310_000_000 + r.IntN(120_000_000))}, {Dir: 1, Len: 6, GapUS: 1000}}
		spec.Convs = append(spec.Convs, long, res)
	}
	if r.IntN(8) == 0 && len(spec.Convs) >= 1 {
		// an address whose four bytes also occur, unaligned, where the addresses of
		// another conversation's two hosts lie next to each other in a host table
		for _, c := range spec.Convs {
			if c.V6 {
				continue
			}
			ca, err1 := netip.ParseAddrPort(c.Client)
			sa, err2 := netip.ParseAddrPort(c.Server)
			if err1 != nil || err2 != nil {
				continue
			}
			a, b := ca.Addr().As4(), sa.Addr().As4()
			if r.IntN(2) == 0 {
				a, b = b, a
			}
			cat := append(a[:], b[:]...)
			off := 1 + r.IntN(3)
			ip := netip.AddrFrom4([4]byte{cat[off], cat[off+1], cat[off+2], cat[off+3]})
			x := ConvSpec{Proto: "udp", Seed: r.Uint64(), Client: fmt.Sprintf("%s:%d", ip, 45000+r.IntN(1000)), Server: c.Server, StartUS: r.Int64N(horizon), StepUS: 100}
			x.Msgs = []MsgSpec{{Dir: 0, Len: 5 + r.IntN(30)}, {Dir: 1, Len: 3 + r.IntN(30), GapUS: 500}}
			spec.Convs = append(spec.Convs, x)
			break
		}
	}
	if cfg.Talkative {
		tk := ConvSpec{Proto: "udp", Seed: r.Uint64(), Client: fmt.Sprintf("10.0.2.%d:%d", 30+r.IntN(5), 42000+r.IntN(1000)), Server: "10.1.0.7:80", StartUS: r.Int64N(horizon), StepUS: 50}
		// more input than a pipe buffers (64 KiB): whoever feeds it to a process
		// that stopped reading gets a write error, not a full buffer
		for j, m := 0, 100+r.IntN(60); j < m; j++ {
			tk.Msgs = append(tk.Msgs, MsgSpec{Dir: j % 2, Len: 500 + r.IntN(400), GapUS: int64(60_000 + r.IntN(100_000))})
		}
		spec.Convs = append(spec.Convs, tk)
	}
	if cfg.Chatty && r.IntN(25) == 0 {
		// thousands of direction changes in one stream: its segmentation table is
		// larger than any buffer a copy loop is likely to use
		ch := ConvSpec{Proto: "udp", Seed: r.Uint64(), Client: fmt.Sprintf("10.0.2.%d:%d", 20+r.IntN(5), 41000+r.IntN(1000)), Server: "10.1.0.8:5353", StartUS: r.Int64N(horizon), StepUS: 50}
		for j, m := 0, 2200+r.IntN(2600); j < m; j++ {
			ch.Msgs = append(ch.Msgs, MsgSpec{Dir: j % 2, Len: 1 + r.IntN(2), GapUS: int64(50 + r.IntN(100))})
		}
		spec.Convs = append(spec.Convs, ch)
	}
	// unique start times: searches sorted by first packet time stay total orders
	used := map[int64]bool{}
	for i := range spec.Convs {
		for used[spec.Convs[i].StartUS] {
			spec.Convs[i].StartUS += 1_000_003
		}
		used[spec.Convs[i].StartUS] = true
	}
	// capture rotation points
	total := Build(&Spec{BaseUnix: spec.BaseUnix, Convs: spec.Convs}).Packets
	nf := 1 + r.IntN(cfg.MaxFiles)
	for i := 1; i < nf && total > 1; i++ {
		var cut int
		if r.IntN(3) == 0 {
			// skewed: small file next to a large one
			if r.IntN(2) == 0 {
				cut = 1 + r.IntN(1+total/10)
			} else {
				cut = total - 1 - r.IntN(1+total/10)
			}
		} else {
			cut = 1 + r.IntN(total-1)
		}
		spec.Cuts = append(spec.Cuts, cut)
	}
	spec.NG = r.IntN(6) == 0
	spec.Jumble = cfg.Jumble && r.IntN(5) == 0
	if cfg.CoarseTick && r.IntN(4) == 0 {
		spec.TickUS = []int64{1000, 100_000, 1_000_000}[r.IntN(3)]
	}
	return spec
}
