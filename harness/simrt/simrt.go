// Package simrt is the runtime side of the deterministic simulation: the
// rewritten pkappa2 sources (see ../simgen) call these hooks. In pass-through
// mode (the default) every hook returns at once and behaviour is the shipped
// behaviour. In simulation mode the hooks talk to the controller over OS
// pipes using raw system calls, which the race detector does not model, so
// the controller's serialisation adds no happens-before edges between the
// goroutines of the system under test (DESIGN §2.2).
//
// Shared state in this file is accessed with plain memory operations from
// functions marked go:norace: exactly one actor runs at a time and every
// hand-over goes through a system call.
package simrt

import (
	"encoding/binary"
	"fmt"
	"iter"
	"os"
	"runtime"
	"slices"
	"strings"
	"syscall"
	"time"
	"unsafe"
)

// Event kinds written to the event pipe (fixed 16-byte records).
const (
	EvSpawned    = 1 // sub = job kind
	EvArrive     = 2 // sub = job kind, a = phase (0 begin, 1 post), b = release fd (write end), c = read fd
	EvPosted     = 3 // sub = job kind, b = release fd (identity)
	EvWorkerIdle = 4
	EvClientDone = 5 // a = client index
	EvBarrier    = 6
	EvExited     = 7 // a job goroutine left through Goexit; b = release fd
)

const (
	KindImport  = 0
	KindTag     = 1
	KindMerge   = 2
	KindConvert = 3
	NKinds      = 4
)

var KindNames = [NKinds]string{"import", "tag", "merge", "convert"}

func kindOf(method string) int {
	switch method {
	case "importPcapJob":
		return KindImport
	case "updateTagJob":
		return KindTag
	case "mergeIndexesJob":
		return KindMerge
	case "convertStreamJob":
		return KindConvert
	}
	return -1
}

type Event struct {
	Kind, Sub uint8
	A, B, C   int32
}

// Job is the handle a job goroutine keeps between its gates.
type Job struct {
	kind   int
	rfd    int
	wfd    int
	active bool
}

var (
	active  bool
	evR     = -1
	evW     = -1
	epoch   time.Time
	offset  int64 // nanoseconds since epoch
	seed    uint64
	mapCtr  uint64
	ioCtr   uint64
	ioHook  func(site string, n uint64)
	ioArmed bool
	numCPU  = 1
	ticker  *Ticker
	// knobs
	SnapshotEvery  uint64 = 100_000
	CleanupMinFree int64  = 16 * 1024 * 1024
)

//go:norace
func Active() bool { return active }

// Start switches to simulation mode. Must be called before any system
// goroutine exists.
//
//go:norace
func Start(s uint64, start time.Time) {
	if evR < 0 {
		evR, evW = RawPipe()
	}
	active = true
	seed = s
	epoch = start
	offset = 0
	mapCtr = 0
	ioCtr = 0
	ticker = nil
	failSuffix, failLeft, failCount = "", 0, 0
}

//go:norace
func Stop() { active = false; ioHook = nil; ioArmed = false }

//go:norace
func EventFD() int { return evR }

//go:norace
func SetNumCPU(n int) { numCPU = n }

//go:norace
func SetKnobs(snapEvery uint64, cleanupMinFree int64) {
	SnapshotEvery = snapEvery
	CleanupMinFree = cleanupMinFree
}

//go:norace
func GetSnapshotEvery() uint64 { return SnapshotEvery }

//go:norace
func GetCleanupMinFree() int64 { return CleanupMinFree }

//go:norace
func NumCPU() int {
	if !active {
		return runtime.NumCPU()
	}
	return numCPU
}

// ---- raw pipe helpers -------------------------------------------------

func RawWrite(fd int, b []byte) {
	for len(b) > 0 {
		n, _, e := syscall.Syscall(syscall.SYS_WRITE, uintptr(fd), uintptr(unsafe.Pointer(&b[0])), uintptr(len(b)))
		if e == syscall.EINTR || e == syscall.EAGAIN {
			continue
		}
		if e != 0 {
			panic("simrt: raw write failed: " + e.Error())
		}
		b = b[n:]
	}
}

// RawRead fills b completely. Returns false on EOF.
func RawRead(fd int, b []byte) bool {
	for len(b) > 0 {
		n, _, e := syscall.Syscall(syscall.SYS_READ, uintptr(fd), uintptr(unsafe.Pointer(&b[0])), uintptr(len(b)))
		if e == syscall.EINTR || e == syscall.EAGAIN {
			continue
		}
		if e != 0 {
			panic("simrt: raw read failed: " + e.Error())
		}
		if n == 0 {
			return false
		}
		b = b[n:]
	}
	return true
}

type pollfd struct {
	fd      int32
	events  int16
	revents int16
}

// RawPoll waits until fd is readable or the timeout (ms) expires.
func RawPoll(fd int, timeoutMS int) bool {
	for {
		p := pollfd{fd: int32(fd), events: 1}
		n, _, e := syscall.Syscall(syscall.SYS_POLL, uintptr(unsafe.Pointer(&p)), 1, uintptr(timeoutMS))
		if e == syscall.EINTR {
			continue
		}
		return e == 0 && n > 0
	}
}

// RawPipe creates a pipe whose descriptors are moved above highFD: code under
// test that closes a descriptor twice (pkappa2's PCAP-over-IP reader does,
// see DESIGN §8) closes a low, freshly reused number and must not hit the
// control plane.
func RawPipe() (r, w int) {
	var p [2]int32
	if _, _, e := syscall.RawSyscall(syscall.SYS_PIPE2, uintptr(unsafe.Pointer(&p[0])), 0, 0); e != 0 {
		panic("simrt: pipe2 failed")
	}
	return moveHigh(int(p[0])), moveHigh(int(p[1]))
}

const highFD = 4000

func moveHigh(fd int) int {
	n, _, e := syscall.RawSyscall(syscall.SYS_FCNTL, uintptr(fd), syscall.F_DUPFD, highFD)
	if e != 0 {
		return fd
	}
	syscall.RawSyscall(syscall.SYS_CLOSE, uintptr(fd), 0, 0)
	return int(n)
}

func RawClose(fd int) {
	syscall.RawSyscall(syscall.SYS_CLOSE, uintptr(fd), 0, 0)
}

//go:norace
func Emit(kind, sub uint8, a, b, c int32) {
	var buf [16]byte
	buf[0] = kind
	buf[1] = sub
	binary.LittleEndian.PutUint32(buf[4:], uint32(a))
	binary.LittleEndian.PutUint32(buf[8:], uint32(b))
	binary.LittleEndian.PutUint32(buf[12:], uint32(c))
	RawWrite(evW, buf[:])
}

// ReadEvent blocks up to timeoutMS for the next event.
func ReadEvent(timeoutMS int) (Event, bool) {
	if !RawPoll(evR, timeoutMS) {
		return Event{}, false
	}
	var buf [16]byte
	if !RawRead(evR, buf[:]) {
		return Event{}, false
	}
	return Event{
		Kind: buf[0], Sub: buf[1],
		A: int32(binary.LittleEndian.Uint32(buf[4:])),
		B: int32(binary.LittleEndian.Uint32(buf[8:])),
		C: int32(binary.LittleEndian.Uint32(buf[12:])),
	}, true
}

// ---- gates --------------------------------------------------------------

//go:norace
func Spawned(method string) {
	if !active {
		return
	}
	if k := kindOf(method); k >= 0 {
		Emit(EvSpawned, uint8(k), 0, 0, 0)
	}
}

const (
	cmdGo   = 1
	cmdExit = 2
)

//go:norace
func park(j *Job, phase int32) {
	Emit(EvArrive, uint8(j.kind), phase, int32(j.wfd), int32(j.rfd))
	var b [1]byte
	ok := RawRead(j.rfd, b[:])
	if !ok || b[0] == cmdExit {
		// emit before closing: the fd number must not be reused by another
		// job's pipe before the controller has seen this event
		Emit(EvExited, uint8(j.kind), 0, int32(j.wfd), 0)
		RawClose(j.rfd)
		RawClose(j.wfd)
		runtime.Goexit()
	}
}

var jobArg [NKinds]string

// LastJobArg returns the first string argument of the most recent job of
// this kind (the tag name of a tagging job).
//
//go:norace
func LastJobArg(kind int) string { return jobArg[kind] }

//go:norace
func JobBegin(method string, arg ...string) *Job {
	if !active {
		return nil
	}
	k := kindOf(method)
	if k < 0 {
		return nil
	}
	if len(arg) > 0 {
		jobArg[k] = arg[0]
	} else {
		jobArg[k] = ""
	}
	r, w := RawPipe()
	j := &Job{kind: k, rfd: r, wfd: w, active: true}
	park(j, 0)
	return j
}

//go:norace
func JobPost(j *Job) {
	if j == nil || !j.active {
		return
	}
	park(j, 1)
}

var unlockHook func(site string)

// SetUnlockHook installs f to be called right after the converter cache code
// releases one of its locks by a statement (as opposed to a deferred unlock at
// the end of the call): the place at which a second caller can get in.
//
//go:norace
func SetUnlockHook(f func(site string)) { unlockHook = f }

//go:norace
func Unlocked(site string) {
	if h := unlockHook; h != nil && active {
		h(site)
	}
}

var yieldOn bool

// SetYield switches the gates inside job bodies on (a job then also parks
// between two rounds of its work, not only before it starts and before its
// completion is applied).
func SetYield(on bool) { yieldOn = on }

// JobYield parks a job in the middle of its body.
//
//go:norace
func JobYield(j *Job) {
	if j == nil || !j.active || !yieldOn {
		return
	}
	park(j, 2)
}

//go:norace
func Posted(j *Job) {
	if j == nil || !j.active {
		return
	}
	j.active = false
	Emit(EvPosted, uint8(j.kind), 0, int32(j.wfd), 0)
	RawClose(j.rfd)
	RawClose(j.wfd)
}

// Release lets the job parked on release fd wfd continue (exit=false) or
// leave through Goexit (exit=true). Controller side.
func Release(wfd int, exit bool) {
	b := [1]byte{cmdGo}
	if exit {
		b[0] = cmdExit
	}
	RawWrite(wfd, b[:])
}

//go:norace
func WorkerIdle(name string) {
	if !active {
		return
	}
	Emit(EvWorkerIdle, 0, 0, 0, 0)
}

// ---- clock ----------------------------------------------------------------

//go:norace
func Now() time.Time {
	if !active {
		return time.Now()
	}
	// usually a millisecond passes between two readings of the clock; in runs
	// with a coarse clock (a seeded quarter of the runs) a seeded third of the
	// readings see the same millisecond as the reading before: file names
	// made in the same millisecond (counter suffix), state files saved at equal
	// times. The decision depends on the offset only, so Save/Restore keep it
	// repeatable.
	if !(seed%4 == 1 && splitmix(seed^uint64(offset))%3 == 0) {
		offset += int64(time.Millisecond)
	} else {
		offset += 1 // still strictly monotonic, same millisecond
	}
	return epoch.Add(time.Duration(offset))
}

// Advance moves simulated time forward (controller side, between steps).
//
//go:norace
func Advance(d time.Duration) { offset += int64(d) }

//go:norace
func Elapsed() time.Duration { return time.Duration(offset) }

// Ticker replaces time.Ticker for the tag event worker.
type Ticker struct {
	C    <-chan time.Time
	c    chan time.Time
	real *time.Ticker
}

//go:norace
func NewTicker(d time.Duration) *Ticker {
	if !active {
		r := time.NewTicker(d)
		return &Ticker{C: r.C, real: r}
	}
	c := make(chan time.Time, 1)
	t := &Ticker{C: c, c: c}
	ticker = t
	return t
}

func (t *Ticker) Stop() {
	if t.real != nil {
		t.real.Stop()
	}
}

// Fire makes the most recently created simulated ticker tick once.
//
//go:norace
func Fire() bool {
	if ticker == nil {
		return false
	}
	select {
	case ticker.c <- epoch.Add(time.Duration(offset)):
	default:
	}
	return true
}

// Saved lets oracles run repository code (which consumes clock ticks and
// map-order draws) without perturbing the schedule.
type Saved struct {
	offset int64
	mapCtr uint64
	ioCtr  uint64
	armed  bool
}

//go:norace
func Save() Saved {
	s := Saved{offset, mapCtr, ioCtr, ioArmed}
	ioArmed = false
	return s
}

//go:norace
func Restore(s Saved) { offset, mapCtr, ioCtr, ioArmed = s.offset, s.mapCtr, s.ioCtr, s.armed }

// ---- map order --------------------------------------------------------------

func splitmix(x uint64) uint64 {
	x += 0x9e3779b97f4a7c15
	x = (x ^ (x >> 30)) * 0xbf58476d1ce4e5b9
	x = (x ^ (x >> 27)) * 0x94d049bb133111eb
	return x ^ (x >> 31)
}

//go:norace
func nextMapSeed() uint64 {
	mapCtr++
	return splitmix(seed ^ splitmix(mapCtr))
}

var debugMap = os.Getenv("VERIF_DEBUG_MAP") != ""

func cmpKey[K comparable](a, b K) int {
	switch x := any(a).(type) {
	case string:
		y := any(b).(string)
		if x < y {
			return -1
		} else if x > y {
			return 1
		}
		return 0
	case uint64:
		y := any(b).(uint64)
		if x < y {
			return -1
		} else if x > y {
			return 1
		}
		return 0
	case int:
		y := any(b).(int)
		if x < y {
			return -1
		} else if x > y {
			return 1
		}
		return 0
	case uint:
		y := any(b).(uint)
		if x < y {
			return -1
		} else if x > y {
			return 1
		}
		return 0
	case uint32:
		y := any(b).(uint32)
		if x < y {
			return -1
		} else if x > y {
			return 1
		}
		return 0
	case uint16:
		y := any(b).(uint16)
		if x < y {
			return -1
		} else if x > y {
			return 1
		}
		return 0
	case uint8:
		y := any(b).(uint8)
		if x < y {
			return -1
		} else if x > y {
			return 1
		}
		return 0
	case int64:
		y := any(b).(int64)
		if x < y {
			return -1
		} else if x > y {
			return 1
		}
		return 0
	case int32:
		y := any(b).(int32)
		if x < y {
			return -1
		} else if x > y {
			return 1
		}
		return 0
	}
	panic("simrt: unsupported map key type")
}

// Range iterates a map in an order that is a function of the run's seed:
// keys sorted, then permuted by a PRNG stream derived from the seed and a
// call counter. Entries deleted during the iteration are not visited (Go's
// rule); entries added during the iteration are not visited (allowed by Go).
// In pass-through mode it is the plain map iteration.
func Range[M ~map[K]V, K comparable, V any](m M) iter.Seq2[K, V] {
	if !Active() {
		return func(yield func(K, V) bool) {
			for k, v := range m {
				if !yield(k, v) {
					return
				}
			}
		}
	}
	return func(yield func(K, V) bool) {
		keys := make([]K, 0, len(m))
		for k := range m {
			keys = append(keys, k)
		}
		slices.SortFunc(keys, cmpKey[K])
		s := nextMapSeed()
		if debugMap {
			_, file, line, _ := runtime.Caller(1)
			fmt.Fprintf(os.Stderr, "MAPRANGE %d %s:%d n=%d\n", mapCtr, file, line, len(keys))
		}
		for i := len(keys) - 1; i > 0; i-- {
			s = splitmix(s)
			j := int(s % uint64(i+1))
			keys[i], keys[j] = keys[j], keys[i]
		}
		for _, k := range keys {
			v, ok := m[k]
			if !ok {
				continue
			}
			if !yield(k, v) {
				return
			}
		}
	}
}

// ---- I/O points -----------------------------------------------------------

// SetIOHook installs f to be called at I/O points while armed.
//
//go:norace
func SetIOHook(f func(site string, n uint64)) { ioHook = f }

//go:norace
func ArmIO(on bool) { ioArmed = on }

//go:norace
func IOArmed() bool { return ioArmed }

//go:norace
func IOCount() uint64 { return ioCtr }

// SetIOOnly makes I/O points call the hook although the gates and the
// simulated clock stay in pass-through mode (httpsim: request handlers yield
// to the controller at their file operations, the manager runs freely).
//
//go:norace
func SetIOOnly(on bool) { ioOnly = on }

var ioOnly bool

//go:norace
func IOPoint(site string) {
	if ioOnly && ioHook != nil {
		ioHook(site, 0)
		return
	}
	if !active {
		return
	}
	ioCtr++
	if ioArmed && ioHook != nil {
		ioHook(site, ioCtr)
	}
}

// ---- disk error injection ----------------------------------------------------

var (
	failSuffix string
	failLeft   int
	failCount  int
)

// FailCreates makes the next n file creations whose name ends in suffix fail
// with ENOSPC (n < 0: until cleared with n = 0). Controller side.
//
//go:norace
func FailCreates(suffix string, n int) { failSuffix, failLeft = suffix, n }

//go:norace
func FailedCreates() int { return failCount }

//go:norace
func shouldFailCreate(name string) bool {
	if !active || failLeft == 0 || failSuffix == "" || !strings.HasSuffix(name, failSuffix) {
		return false
	}
	if failLeft > 0 {
		failLeft--
	}
	failCount++
	return true
}

// OSCreate replaces os.Create in the instrumented packages.
func OSCreate(name string) (*os.File, error) {
	if shouldFailCreate(name) {
		return nil, &os.PathError{Op: "open", Path: name, Err: syscall.ENOSPC}
	}
	return os.Create(name)
}

// WatcherAdd replaces fsnotify's Watcher.Add: in simulation nothing is watched.
//
//go:norace
func WatcherAdd(add func(string) error, dir string) error {
	if active {
		return nil
	}
	return add(dir)
}

var openFailLeft int

// FailOpens makes the next n file creations of the HTTP handlers fail with
// EMFILE (the process has no descriptor left). Controller side.
//
//go:norace
func FailOpens(n int) { openFailLeft = n }

// OSOpenFile replaces os.OpenFile in cmd/pkappa2.
//
//go:norace
func OSOpenFile(name string, flag int, perm os.FileMode) (*os.File, error) {
	if openFailLeft > 0 && flag&os.O_CREATE != 0 {
		openFailLeft--
		return nil, &os.PathError{Op: "open", Path: name, Err: syscall.EMFILE}
	}
	return os.OpenFile(name, flag, perm)
}

// ---- write errors: file size limit -----------------------------------------------

var fsizeLimit int64 // 0 = none

func setFsize(n int64) {
	var rl syscall.Rlimit
	if syscall.Getrlimit(syscall.RLIMIT_FSIZE, &rl) != nil {
		return
	}
	if n <= 0 {
		rl.Cur = rl.Max
	} else {
		rl.Cur = uint64(n)
	}
	syscall.Setrlimit(syscall.RLIMIT_FSIZE, &rl)
}

// SetFsizeLimit makes every write that would extend a regular file beyond n
// bytes fail (EFBIG, a short write first) — a full disk or quota as one actor
// sees it: the limit is per process, but under the controller only one actor
// runs at a time, and the controller sets it for the duration of one step.
// n <= 0 lifts the limit. The worker ignores SIGXFSZ.
//
//go:norace
func SetFsizeLimit(n int64) {
	fsizeLimit = n
	setFsize(n)
}

// WithoutFsizeLimit runs f (harness file operations inside a limited step)
// without the limit.
//
//go:norace
func WithoutFsizeLimit(f func()) {
	if fsizeLimit <= 0 {
		f()
		return
	}
	setFsize(0)
	f()
	setFsize(fsizeLimit)
}
