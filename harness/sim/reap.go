package sim

import (
	"bytes"
	"os"
	"strconv"
	"syscall"
)

// ReapChildren kills and reaps every direct child process of this process.
// The worker calls it between runs: by then every manager instance of the
// run is closed or abandoned, and the converter children it started (the
// repository's Close does not stop them) would otherwise pile up — a few
// hundred processes of five threads each per worker — until the worker is
// recycled. Returns the number of children killed.
func ReapChildren() int {
	self := os.Getpid()
	ents, err := os.ReadDir("/proc")
	if err != nil {
		return 0
	}
	n := 0
	for _, e := range ents {
		pid, err := strconv.Atoi(e.Name())
		if err != nil || pid == self {
			continue
		}
		st, err := os.ReadFile("/proc/" + e.Name() + "/stat")
		if err != nil {
			continue
		}
		// pid (comm) state ppid ...
		i := bytes.LastIndexByte(st, ')')
		if i < 0 {
			continue
		}
		f := bytes.Fields(st[i+1:])
		if len(f) < 2 {
			continue
		}
		ppid, _ := strconv.Atoi(string(f[1]))
		if ppid != self {
			continue
		}
		syscall.Kill(pid, syscall.SIGKILL)
		var ws syscall.WaitStatus
		syscall.Wait4(pid, &ws, 0, nil)
		n++
	}
	return n
}
