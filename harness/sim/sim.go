// Package sim holds what all engines share: run results, violations, the
// generic greedy minimiser and small helpers.
package sim

import (
	"crypto/sha256"
	"encoding/hex"
	"encoding/json"
	"fmt"
	"math/rand/v2"
	"os"
	"path/filepath"
	"sort"
)

type Violation struct {
	Property  string `json:"property"`
	Oracle    string `json:"oracle"`
	Signature string `json:"signature"`
	Message   string `json:"message"`
}

func (v *Violation) Key() string { return v.Property + "/" + v.Oracle + "/" + v.Signature }

type RunResult struct {
	Seed     uint64            `json:"seed"`
	Run      uint64            `json:"run"`
	Viol     *Violation        `json:"violation,omitempty"`
	Infra    string            `json:"infra,omitempty"` // harness trouble: exit 2, never a violation
	Counters map[string]int64  `json:"counters,omitempty"`
	SchedSig string            `json:"sched_sig,omitempty"`
	States   []string          `json:"states,omitempty"`
	NonTriv  bool              `json:"nontrivial,omitempty"`
	SimTimeS float64           `json:"sim_time_s,omitempty"`
	Steps    []string          `json:"steps,omitempty"` // labels actually taken (for replay files)
	Sample   json.RawMessage   `json:"sample,omitempty"`
	Log      []string          `json:"log,omitempty"`
	KnownMsg map[string]string `json:"known_msg,omitempty"`
}

// Known holds the keys (property/oracle/signature) of known findings; set by
// the worker from $VERIF_KNOWN before any run.
var Known = map[string]bool{}

func (r *RunResult) Count(name string, n int64) {
	if r.Counters == nil {
		r.Counters = map[string]int64{}
	}
	r.Counters[name] += n
}

// Engine is implemented by every simulation engine.
type Engine interface {
	// Generate draws a plan for (property, seed, run index).
	Generate(prop string, tier string, seed, run uint64) json.RawMessage
	// Execute runs one plan deterministically.
	Execute(plan json.RawMessage, scratch string) RunResult
	// Shrink proposes smaller plans, most aggressive first. last is the
	// result of executing plan (it carries the steps actually taken).
	Shrink(plan json.RawMessage, last *RunResult) []json.RawMessage
}

func NewRand(seed, run uint64) *rand.Rand {
	return rand.New(rand.NewPCG(seed, run*0x9e3779b97f4a7c15+0x1234567))
}

func Hash(parts ...any) string {
	h := sha256.New()
	for _, p := range parts {
		fmt.Fprintf(h, "%v\x00", p)
	}
	return hex.EncodeToString(h.Sum(nil)[:8])
}

// Minimise greedily applies Shrink candidates while the same violation
// (property/oracle/signature) persists. budget bounds the executions.
func Minimise(e Engine, plan json.RawMessage, first RunResult, scratch string, budget int) (json.RawMessage, RunResult, int) {
	cur, curRes := plan, first
	want := first.Viol.Key()
	execs := 0
	for progress := true; progress && execs < budget; {
		progress = false
		for _, cand := range e.Shrink(cur, &curRes) {
			if execs >= budget {
				break
			}
			execs++
			dir := filepath.Join(scratch, fmt.Sprintf("min%d", execs))
			res := e.Execute(cand, dir)
			ReapChildren()
			os.RemoveAll(dir)
			if res.Viol != nil && res.Viol.Key() == want {
				cur, curRes = cand, res
				progress = true
				break
			}
		}
	}
	return cur, curRes, execs
}

// ReplayFile is what a VIOLATION line points to.
type ReplayFile struct {
	Property  string          `json:"property"`
	Engine    string          `json:"engine"`
	Oracle    string          `json:"oracle"`
	Signature string          `json:"signature"`
	Message   string          `json:"message"`
	Seed      uint64          `json:"seed"`
	Run       uint64          `json:"run"`
	Minimised bool            `json:"minimised"`
	Plan      json.RawMessage `json:"plan"`
	Steps     []string        `json:"steps,omitempty"`
}

func SortedKeys[V any](m map[string]V) []string {
	ks := make([]string, 0, len(m))
	for k := range m {
		ks = append(ks, k)
	}
	sort.Strings(ks)
	return ks
}

func MustJSON(v any) json.RawMessage {
	b, err := json.Marshal(v)
	if err != nil {
		panic(err)
	}
	return b
}
