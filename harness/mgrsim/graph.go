package mgrsim

import (
	"fmt"
	"github.com/spq/pkappa2/internal/query"
	"sort"
	"strings"

	"github.com/spq/pkappa2/internal/index/manager"
)

// ---- C11: tag table model ---------------------------------------------------------------

type tagProj struct {
	Def, Color string
	Convs      []string
	Refs       []string
	RefBy      []string
}

func project(st *manager.VerifState) map[string]tagProj {
	m := map[string]tagProj{}
	if st == nil {
		return m
	}
	for _, t := range st.Tags {
		cs := append([]string(nil), t.Converters...)
		sort.Strings(cs)
		m[t.Name] = tagProj{Def: t.Definition, Color: t.Color, Convs: cs, Refs: t.References, RefBy: t.ReferencedBy}
	}
	return m
}

func sameProj(a, b tagProj, ignoreRefBy bool) bool {
	if a.Def != b.Def || a.Color != b.Color || fmt.Sprint(a.Convs) != fmt.Sprint(b.Convs) {
		return false
	}
	return ignoreRefBy || fmt.Sprint(a.RefBy) == fmt.Sprint(b.RefBy)
}

func isTagOp(k string) bool {
	switch k {
	case "AddTag", "DelTag", "UpdQuery", "UpdColor", "UpdName", "MarkAdd", "MarkDel", "SetConv":
		return true
	}
	return false
}

// checkAtomic runs after a tag API call, with o.prevState the table before
// and o.state the table after the call.
func (o *oracles) checkAtomic(op Op, r OpResult) {
	if !isTagOp(op.K) || o.prevState == nil || o.state == nil {
		return
	}
	before, after := project(o.prevState), project(o.state)
	shape := op.K
	if r.Err != "" {
		// rejected: nothing may have changed
		for _, n := range unionKeys(before, after) {
			b, okb := before[n]
			a, oka := after[n]
			if okb != oka || !sameProj(b, a, false) {
				if o.violate("atomic", shape+"/rejected-but-changed", fmt.Sprintf("%s returned error %q but tag %s changed: %+v -> %+v (op %s)", op.K, r.Err, n, b, a, op)) {
					return
				}
			}
		}
		o.s.res.Count("c11_rejected_unchanged", 1)
		return
	}
	// accepted: exactly the requested change
	exp := map[string]tagProj{}
	for n, p := range before {
		exp[n] = p
	}
	switch op.K {
	case "AddTag":
		exp[op.Name] = tagProj{Def: op.Def, Color: op.Color}
		delete(o.ackMarks, op.Name)
	case "DelTag":
		delete(o.ackMarks, op.Name)
		if len(before[op.Name].RefBy) != 0 {
			if o.violate("graph", "deleted-referenced", fmt.Sprintf("DelTag(%s) succeeded although %v reference it", op.Name, before[op.Name].RefBy)) {
				return
			}
		}
		delete(exp, op.Name)
	case "UpdColor":
		p := exp[op.Name]
		if op.Color != "" {
			p.Color = op.Color
		}
		exp[op.Name] = p
	case "UpdQuery":
		p := exp[op.Name]
		p.Def = op.Def
		exp[op.Name] = p
		delete(o.ackMarks, op.Name) // the new definition says which streams are marked now
	case "UpdName":
		if op.NewName != "" {
			if len(before[op.Name].RefBy) != 0 {
				if o.violate("graph", "renamed-referenced", fmt.Sprintf("rename %s -> %s succeeded although %v reference it", op.Name, op.NewName, before[op.Name].RefBy)) {
					return
				}
			}
			p := exp[op.Name]
			delete(exp, op.Name)
			exp[op.NewName] = p
			if m, ok := o.ackMarks[op.Name]; ok {
				delete(o.ackMarks, op.Name)
				o.ackMarks[op.NewName] = m
			}
		}
	case "SetConv":
		p := exp[op.Name]
		cs := append([]string(nil), op.Convs...)
		sort.Strings(cs)
		p.Convs = dedup(cs)
		exp[op.Name] = p
	case "MarkAdd", "MarkDel":
		// acknowledged marks stay until they are taken back (checked after every step)
		if o.ackMarks == nil {
			o.ackMarks = map[string]map[uint64]bool{}
		}
		if o.ackMarks[op.Name] == nil {
			o.ackMarks[op.Name] = map[uint64]bool{}
		}
		for _, id := range op.IDs {
			if op.K == "MarkAdd" {
				o.ackMarks[op.Name][id] = true
			} else {
				delete(o.ackMarks[op.Name], id)
			}
		}
		// definition is rewritten by the service; membership is checked below
		p := exp[op.Name]
		p.Def = after[op.Name].Def
		exp[op.Name] = p
		t := o.tagByName(op.Name)
		if t != nil {
			// the rewritten definition must be a query, and the query must denote
			// the tag's matches (it is what the next start evaluates)
			if q, err := query.Parse(t.Definition); err != nil {
				if o.violate("atomic", op.K+"/definition-unparsable", fmt.Sprintf("%s(%s,%v) returned success and left the definition %q, which is not a query: %v", op.K, op.Name, op.IDs, t.Definition, err)) {
					return
				}
			} else if ids, ok := q.Conditions.StreamIDs(o.state.NextStreamID); !ok {
				if o.violate("atomic", op.K+"/definition-not-ids", fmt.Sprintf("%s(%s,%v) returned success and left the definition %q, which is not an id filter", op.K, op.Name, op.IDs, t.Definition)) {
					return
				}
			} else {
				D := map[uint]bool{}
				for i := uint(0); ids.Next(&i); i++ {
					D[i] = true
				}
				M := setOf(t.Matches)
				U := setOf(t.Uncertain) // pending streams are decided by the next tagging job
				for i := uint(0); i < uint(o.state.NextStreamID); i++ {
					if D[i] != M[i] && !U[i] {
						if o.violate("atomic", op.K+"/definition-differs-from-matches", fmt.Sprintf("%s(%s,%v) returned success; the definition is now %q but the tag matches %v (stream %d: definition %v, matches %v)", op.K, op.Name, op.IDs, t.Definition, t.Matches, i, D[i], M[i])) {
							return
						}
						break
					}
				}
			}
			M := setOf(t.Matches)
			for _, id := range op.IDs {
				if (op.K == "MarkAdd") != M[uint(id)] {
					if o.violate("atomic", op.K+"/accepted-no-effect", fmt.Sprintf("%s(%s,%v) returned success but stream %d member=%v (matches %v)", op.K, op.Name, op.IDs, id, M[uint(id)], t.Matches)) {
						return
					}
				}
			}
		}
	}
	for _, n := range unionKeys(exp, after) {
		e, oke := exp[n]
		a, oka := after[n]
		if oke != oka || !sameProj(e, a, true) {
			if o.violate("atomic", shape+"/accepted-wrong-effect", fmt.Sprintf("%s returned success; tag %s expected %+v (present=%v) got %+v (present=%v) (op %s)", op.K, n, e, oke, a, oka, op)) {
				return
			}
		}
	}
	o.s.res.Count("c11_accepted_applied", 1)
}

func dedup(l []string) []string {
	var out []string
	for i, x := range l {
		if i == 0 || x != l[i-1] {
			out = append(out, x)
		}
	}
	return out
}

func unionKeys(a, b map[string]tagProj) []string {
	m := map[string]bool{}
	for k := range a {
		m[k] = true
	}
	for k := range b {
		m[k] = true
	}
	ks := make([]string, 0, len(m))
	for k := range m {
		ks = append(ks, k)
	}
	sort.Strings(ks)
	return ks
}

// checkGraph: well-formedness of the tag graph after every step.
func (o *oracles) checkGraph() {
	st := o.state
	// acknowledged marks: a stream added to a mark tag by an acknowledged call
	// stays marked (matching or pending) until a call takes it back — whatever
	// job of that tag completes in between
	for _, t := range st.Tags {
		acked := o.ackMarks[t.Name]
		if len(acked) == 0 {
			continue
		}
		M, U := setOf(t.Matches), setOf(t.Uncertain)
		for _, id := range sortedU64(acked) {
			if !M[uint(id)] && !U[uint(id)] {
				if o.violate("atomic", "mark-lost", fmt.Sprintf("stream %d was added to %s by an acknowledged call and nothing took it back, but the tag (definition %q) matches %v", id, t.Name, t.Definition, t.Matches)) {
					return
				}
			}
		}
	}
	refs := map[string][]string{}
	for _, t := range st.Tags {
		refs[t.Name] = t.References
	}
	refBy := map[string]map[string]bool{}
	for _, t := range st.Tags {
		for _, r := range t.References {
			if _, ok := refs[r]; !ok {
				if o.violate("graph", "dangling-reference", fmt.Sprintf("tag %s (%q) references missing tag %s", t.Name, t.Definition, r)) {
					return
				}
			}
			if refBy[r] == nil {
				refBy[r] = map[string]bool{}
			}
			refBy[r][t.Name] = true
		}
	}
	// cycles
	state := map[string]int{}
	var visit func(n string, path []string) []string
	visit = func(n string, path []string) []string {
		switch state[n] {
		case 1:
			return append(path, n)
		case 2:
			return nil
		}
		state[n] = 1
		for _, r := range refs[n] {
			if c := visit(r, append(path, n)); c != nil {
				return c
			}
		}
		state[n] = 2
		return nil
	}
	for _, t := range st.Tags {
		if c := visit(t.Name, nil); c != nil {
			if o.violate("graph", "cycle", fmt.Sprintf("tag references form a cycle: %s", strings.Join(c, " -> "))) {
				return
			}
		}
	}
	for _, t := range st.Tags {
		var want []string
		for n := range refBy[t.Name] {
			want = append(want, n)
		}
		sort.Strings(want)
		if fmt.Sprint(want) != fmt.Sprint(append([]string{}, t.ReferencedBy...)) && !(len(want) == 0 && len(t.ReferencedBy) == 0) {
			if o.violate("graph", "referenced-mismatch", fmt.Sprintf("tag %s: referenced-by is %v, the definitions say %v", t.Name, t.ReferencedBy, want)) {
				return
			}
		}
	}
	for _, ti := range o.tags {
		want := len(refBy[ti.Name]) != 0
		if ti.Referenced != want {
			if o.violate("graph", "referenced-flag", fmt.Sprintf("ListTags: tag %s Referenced=%v, the definitions say %v", ti.Name, ti.Referenced, want)) {
				return
			}
		}
	}
	o.s.res.Count("c11_graph_checks", 1)
}

func sortedU64(m map[uint64]bool) []uint64 {
	l := make([]uint64, 0, len(m))
	for k := range m {
		l = append(l, k)
	}
	sort.Slice(l, func(i, j int) bool { return l[i] < l[j] })
	return l
}
