package mgrsim

import (
	"encoding/json"
	"fmt"
	"io"
	"log"
	"net"
	"os"
	"path/filepath"
	"runtime"
	"strconv"
	"strings"
	"time"

	"github.com/spq/pkappa2/verif/netsim"
	"github.com/spq/pkappa2/verif/oracle"
	"github.com/spq/pkappa2/verif/sim"
	"github.com/spq/pkappa2/verif/simrt"
)

// VconvPath is the harness converter executable (set by the worker).
var VconvPath string

type Engine struct{}

func (Engine) Generate(prop, tier string, seed, run uint64) json.RawMessage {
	return sim.MustJSON(Gen(prop, tier, seed, run))
}

func dirsAt(base string) oracle.Dirs {
	return oracle.Dirs{Base: base, Pcap: filepath.Join(base, "pcap") + "/", Index: filepath.Join(base, "index") + "/", Snapshot: filepath.Join(base, "snapshot") + "/", State: filepath.Join(base, "state") + "/", Converter: filepath.Join(base, "converter") + "/"}
}

func copyFile(src, dst string, mode os.FileMode) error {
	b, err := os.ReadFile(src)
	if err != nil {
		return err
	}
	return os.WriteFile(dst, b, mode)
}

func (Engine) Execute(planJSON json.RawMessage, scratch string) (res sim.RunResult) {
	var p Plan
	if err := json.Unmarshal(planJSON, &p); err != nil {
		res.Infra = "bad plan: " + err.Error()
		return
	}
	res.Seed, res.Run = p.Seed, p.Run
	log.SetOutput(io.Discard)
	s := &Sim{plan: &p, res: &res, scratch: scratch, watchdogMS: 30000}
	if w, err := strconv.Atoi(os.Getenv("VERIF_WATCHDOG_MS")); err == nil && w > 0 {
		s.watchdogMS = w
	}
	s.rng = sim.NewRand(p.SchedSeed, 77)
	if p.Steps != nil {
		s.replay = p.Steps
	}
	for _, o := range p.Ops {
		if o.C >= 1 && o.C < NClients {
			s.ops[o.C] = append(s.ops[o.C], o)
		}
	}
	simrt.Start(p.Seed^p.SchedSeed, time.Unix(1_700_000_000, 0))
	simrt.SetKnobs(p.Knobs.SnapEvery, p.Knobs.CleanupMinFree)
	simrt.SetNumCPU(p.Knobs.NumCPU)
	// the gate inside the converter job only with one simulated CPU: with more,
	// how many conversions have finished when the job looks again is real time
	simrt.SetYield(p.Yield && p.Knobs.NumCPU == 1)
	defer simrt.Stop()

	s.capt = netsim.Build(&p.Net)
	src := filepath.Join(scratch, "src")
	os.MkdirAll(src, 0o755)
	if err := s.capt.WriteAll(&p.Net, src); err != nil {
		res.Infra = "write pcaps: " + err.Error()
		return
	}
	d, err := oracle.MakeDirs(filepath.Join(scratch, "data"))
	if err != nil {
		res.Infra = err.Error()
		return
	}
	s.dirs = d
	vdir := filepath.Join(scratch, "vconv")
	os.MkdirAll(vdir, 0o755)
	os.Setenv("VCONV_DIR", vdir)
	if p.ConvFail {
		os.WriteFile(filepath.Join(vdir, "failmode"), nil, 0o644)
	}
	if p.ConvGarble {
		os.WriteFile(filepath.Join(vdir, "garblemode"), nil, 0o644)
	}
	if p.ConvDie {
		os.WriteFile(filepath.Join(vdir, "diemode"), nil, 0o644)
	}
	for _, c := range p.Converters {
		if VconvPath == "" {
			res.Infra = "no converter executable configured"
			return
		}
		if err := copyFile(VconvPath, filepath.Join(d.Converter, c), 0o755); err != nil {
			res.Infra = err.Error()
			return
		}
		if c == p.ConvNoExec {
			os.WriteFile(filepath.Join(d.Converter, c), []byte("#!/nonexistent/interpreter\n"), 0o755)
			res.Count("fault_converter_cannot_be_started", 1)
		}
	}
	s.or = newOracles(s)
	if p.Loopback && len(s.capt.Names) > 0 {
		// a PCAP-over-IP source: serves one capture over a loopback socket, then closes
		if ln, err := net.Listen("tcp", "127.0.0.1:0"); err == nil {
			s.loopback = ln.Addr().String()
			data, _ := os.ReadFile(filepath.Join(src, s.capt.Names[len(s.capt.Names)-1]))
			go func() {
				for {
					c, err := ln.Accept()
					if err != nil {
						return
					}
					c.Write(data)
					time.Sleep(20 * time.Millisecond)
					c.Close()
				}
			}()
			defer ln.Close()
			res.Count("fault_loopback_pcap_over_ip", 1)
		}
	}

	if p.Poip {
		res.Count("probe_pcap_over_ip_feed", 1)
	}
	fatal := false
	func() {
		defer func() {
			if e := recover(); e != nil {
				if he, ok := e.(hangError); ok {
					fatal = true
					s.or.onHang(he.what)
					buf := make([]byte, 1<<20)
					buf = buf[:runtime.Stack(buf, true)]
					res.Log = append(res.Log, "goroutines at hang:\n"+filterStacks(string(buf)))
					return
				}
				panic(e)
			}
		}()
		s.startClients()
		if r := s.call(CBarrier, Op{K: "New"}); r.Err != "" {
			res.Infra = "manager.New: " + r.Err
			return
		}
		s.alive = true
		s.settle()
		if p.Listener {
			s.call(CBarrier, Op{K: "Listen"})
			s.settle()
		}
		if p.CrashMax > 0 && !p.NoOracle {
			s.crash = newCrasher(s)
			simrt.SetIOHook(s.crash.ioHook)
		}
		s.or.start()
		simrt.ArmIO(s.crash != nil)
		s.runSchedule()
		simrt.ArmIO(false)
		if res.Viol == nil && res.Infra == "" {
			s.or.final()
		}
		if s.crash != nil && res.Viol == nil && res.Infra == "" {
			s.call(CView, Op{K: "DropViews"})
			s.call(CBarrier, Op{K: "Close"})
			s.alive = false
			s.killJobs()
			s.crash.restartAll()
		}
		s.shutdown()
	}()
	res.Steps = s.steps
	c := res.Counters
	switch p.Prop {
	case "C07":
		res.NonTriv = c["c07_merge_checks"] > 0
	case "C05", "C08":
		res.NonTriv = c["c10_complete_checks"] > 0 && len(s.capt.Files) > 1
	case "C10":
		res.NonTriv = c["c10_stable_checks"] > 0 && (c["probe_view_opened_during_jobs"] > 0 || c["probe_view_held_across_merge"] > 0)
	case "C11":
		res.NonTriv = c["c11_rejected_unchanged"] > 0 && c["c11_accepted_applied"] > 0
	case "C13":
		res.NonTriv = c["probe_view_held_across_merge"] > 0 || c["probe_view_opened_during_jobs"] > 0
	case "C16":
		res.NonTriv = c["probe_convert_applied"] > 0 || c["probe_on_demand_conversion"] > 0
	case "C09":
		res.NonTriv = s.drainN > 0 && res.NonTriv
	case "C20":
		// no oracle probes in race runs: non-trivial = API calls were made while jobs were parked or running
		overlap := false
		open := 0
		for _, l := range s.steps {
			switch {
			case strings.HasPrefix(l, "body:"):
				open++
			case strings.HasPrefix(l, "post:"):
				if open > 0 {
					open--
				}
			case strings.HasPrefix(l, "api:") && open > 0:
				overlap = true
			}
		}
		res.NonTriv = overlap
	}
	if ents, err := os.ReadDir(vdir); err == nil {
		for _, e := range ents {
			if strings.HasPrefix(e.Name(), "fail-") {
				res.Count("fault_converter_transient_failure", 1)
			}
			if strings.HasPrefix(e.Name(), "die-") {
				res.Count("fault_converter_dies_mid_input", 1)
			}
			if strings.HasPrefix(e.Name(), "garble-") {
				res.Count("fault_converter_protocol_violation", 1)
			}
		}
	}
	res.SimTimeS = simrt.Elapsed().Seconds()
	res.SchedSig = sim.Hash(abstractSteps(s.steps, &p))
	res.Count("io_points", int64(simrt.IOCount()))
	res.Count("replay_labels_skipped", int64(s.skipped))
	if fatal {
		res.Log = append(res.Log, "FATAL: hang: "+s.hang)
		res.Count("fatal", 1)
	}
	if res.Viol == nil && res.Infra == "" {
		n := len(s.steps)
		if n > 40 {
			n = 40
		}
		res.Sample = sim.MustJSON(map[string]any{"steps": s.steps[:n], "n_steps": len(s.steps), "ops": len(p.Ops), "files": len(s.capt.Files), "convs": len(p.Net.Convs)})
	}
	return
}

// Fatal reports whether the process state is unusable after this result.
func Fatal(r *sim.RunResult) bool { return r.Counters["fatal"] > 0 }

// abstractSteps maps api labels to op kinds so that schedule signatures
// do not depend on op numbering.
func abstractSteps(steps []string, p *Plan) string {
	kind := map[string]string{}
	for _, o := range p.Ops {
		kind[fmt.Sprint(o.ID)] = o.K
	}
	var sb strings.Builder
	for _, l := range steps {
		if id, ok := strings.CutPrefix(l, "api:"); ok {
			sb.WriteString("api:" + kind[id])
		} else {
			sb.WriteString(l)
		}
		sb.WriteByte(' ')
	}
	return sb.String()
}

func (s *Sim) shutdown() {
	if s.alive {
		s.call(CBarrier, Op{K: "Close"})
		s.alive = false
	}
	s.killJobs()
	s.stopClients()
}

// killJobs makes every parked job goroutine leave through Goexit.
func (s *Sim) killJobs() {
	for _, j := range append([]*jobRec(nil), s.jobs...) {
		if j.state == jBegin || j.state == jPost || j.state == jMid {
			simrt.Release(j.wfd, true)
		}
	}
	s.waitFor(func() bool { return len(s.jobs) == 0 }, "parked jobs exit")
	s.spawned, s.arrived = 0, 0
}

// cleanRestart: Close, abandon parked jobs, New on the same directories.
func (s *Sim) cleanRestart() {
	s.res.Count("fault_clean_restart", 1)
	s.or.beforeRestart()
	s.call(CView, Op{K: "DropViews"})
	s.call(CBarrier, Op{K: "Close"})
	s.alive = false
	s.killJobs()
	if h := s.plan.HideAtRestart; h != "" && !s.hidden {
		// the converter's file is not executable when the service starts: it is
		// not loaded (and whatever the service does meanwhile does not know it)
		// until a later change event makes it known
		os.Chmod(filepath.Join(s.dirs.Converter, h), 0o644)
		s.hidden = true
		s.res.Count("fault_converter_not_executable_at_start", 1)
	}
	if r := s.call(CBarrier, Op{K: "New"}); r.Err != "" {
		s.or.violate("restart", "restart-failed", "manager.New after clean Close: "+r.Err)
		return
	}
	s.alive = true
	s.settle()
	s.or.afterRestart()
}

func (Engine) Shrink(planJSON json.RawMessage, last *sim.RunResult) []json.RawMessage {
	var p Plan
	json.Unmarshal(planJSON, &p)
	steps := p.Steps
	if steps == nil && last != nil {
		steps = last.Steps
	}
	clone := func() Plan {
		var q Plan
		json.Unmarshal(planJSON, &q)
		q.Steps = append([]string(nil), steps...)
		return q
	}
	var out []json.RawMessage
	emit := func(q Plan) { out = append(out, sim.MustJSON(q)) }
	// 1. truncate the schedule after the step at which the violation appeared
	if p.Steps == nil {
		emit(clone())
	}
	// 2. drop ops: halves, then singles
	n := len(p.Ops)
	for chunk := n / 2; chunk >= 1; chunk /= 2 {
		for i := 0; i+chunk <= n; i += chunk {
			q := clone()
			q.Ops = append(append([]Op(nil), q.Ops[:i]...), q.Ops[i+chunk:]...)
			emit(q)
		}
		if chunk == 1 {
			break
		}
	}
	// 3. drop conversations
	if len(p.Net.Convs) > 1 {
		for i := range p.Net.Convs {
			q := clone()
			q.Net.Convs = append(append([]netsim.ConvSpec(nil), q.Net.Convs[:i]...), q.Net.Convs[i+1:]...)
			emit(q)
		}
	}
	// 4. fewer capture files (only if no Import op names a file beyond the new count)
	for i := range p.Net.Cuts {
		q := clone()
		q.Net.Cuts = append(append([]int(nil), q.Net.Cuts[:i]...), q.Net.Cuts[i+1:]...)
		nf := len(netsim.Build(&q.Net).Files)
		for oi := range q.Ops {
			if q.Ops[oi].K == "Import" {
				var fl []int
				for _, f := range q.Ops[oi].Files {
					if f < nf {
						fl = append(fl, f)
					}
				}
				q.Ops[oi].Files = fl
			}
		}
		emit(q)
	}
	// 5. simplify conversations
	for i, c := range p.Net.Convs {
		if len(c.Msgs) > 1 {
			q := clone()
			q.Net.Convs[i].Msgs = q.Net.Convs[i].Msgs[:len(c.Msgs)/2]
			emit(q)
		}
		if c.Reorder > 0 || c.Dup > 0 {
			q := clone()
			q.Net.Convs[i].Reorder, q.Net.Convs[i].Dup = 0, 0
			emit(q)
		}
	}
	// 6. drop schedule labels (delays that do not matter): chunks then singles
	m := len(steps)
	for chunk := m / 2; chunk >= 1; chunk /= 2 {
		for i := 0; i+chunk <= m; i += chunk {
			q := clone()
			q.Steps = append(append([]string(nil), steps[:i]...), steps[i+chunk:]...)
			emit(q)
		}
		if chunk == 1 {
			break
		}
	}
	// 7. knobs back to shipped values, no faults
	if p.Knobs.SnapEvery != 100_000 || p.Knobs.CleanupMinFree != 16<<20 {
		q := clone()
		q.Knobs.SnapEvery, q.Knobs.CleanupMinFree = 100_000, 16<<20
		emit(q)
	}
	if p.ConvFail {
		q := clone()
		q.ConvFail = false
		emit(q)
	}
	if p.ConvGarble {
		q := clone()
		q.ConvGarble = false
		emit(q)
	}
	if p.ConvDie {
		q := clone()
		q.ConvDie = false
		emit(q)
	}
	if len(p.Restarts) > 0 {
		q := clone()
		q.Restarts = nil
		emit(q)
	}
	for i := range p.WriteFail {
		q := clone()
		q.WriteFail = append(append([]WriteFault(nil), q.WriteFail[:i]...), q.WriteFail[i+1:]...)
		emit(q)
	}
	if p.MergeFail {
		q := clone()
		q.MergeFail = false
		emit(q)
	}
	if p.MergeFailN > 0 {
		q := clone()
		q.MergeFailN = 0
		emit(q)
	}
	if p.ImportFail > 0 {
		q := clone()
		q.ImportFail = 0
		emit(q)
	}
	return out
}

// filterStacks keeps the goroutines that are inside repository code.
func filterStacks(all string) string {
	var out []string
	for _, g := range strings.Split(all, "\n\n") {
		if strings.Contains(g, "pkappa2/internal") || strings.Contains(g, "pkappa2/cmd") {
			out = append(out, g)
		}
	}
	return strings.Join(out, "\n\n")
}
