package mgrsim

import (
	"encoding/binary"
	"encoding/json"
	"fmt"
	"math/rand/v2"
	"os"
	"sort"
	"strconv"
	"strings"
	"sync/atomic"
	"time"

	"github.com/spq/pkappa2/internal/index/manager"
	"github.com/spq/pkappa2/verif/netsim"
	"github.com/spq/pkappa2/verif/oracle"
	"github.com/spq/pkappa2/verif/sim"
	"github.com/spq/pkappa2/verif/simrt"
)

const (
	jBegin = iota
	jRunning
	jPost
	jPosting
	jMid // parked between two rounds of its body
)

type jobRec struct {
	arg       string // tag name of a tagging job
	spawnStep int
	files     []string // index files served right after the step in which the job was spawned
	filesSet  bool
	kind, seq int
	wfd       int
	state     int
	held      int // steps for which the scheduler ignores it ("slow job")
}

func (j *jobRec) name() string { return fmt.Sprintf("%s#%d", simrt.KindNames[j.kind], j.seq) }

type client struct {
	idx        int
	cmdR, cmdW int
	resR, resW int
	done       bool
}

type hangError struct{ what string }

type Sim struct {
	plan    *Plan
	res     *sim.RunResult
	scratch string
	dirs    oracle.Dirs
	capt    *netsim.Capture
	mgrp    atomic.Pointer[manager.Manager]
	alive   bool

	jobs        []*jobRec
	spawned     int
	arrived     int
	arrivedKind [simrt.NKinds]int
	workerIdle  int
	clients     [NClients]*client

	rng         *rand.Rand
	steps       []string
	stepNo      int
	ops         [NClients][]Op
	opNext      [NClients]int
	replay      []string
	replayPos   int
	skipped     int
	hang        string
	draining    bool
	restartSoon bool
	hidden      bool
	drainN      int

	watchdogMS int
	loopback   string
	inStep     bool
	crash      *crasher

	or *oracles
}

// The manager pointer is published with an atomic store/load: in the real
// program the manager is fully constructed before any request handler can
// see it, and that happens-before edge (and only that one) is reproduced here.
func (s *Sim) curMgr() *manager.Manager { return s.mgrp.Load() }

func (s *Sim) setMgr(m *manager.Manager) { s.mgrp.Store(m) }

// ---- framing over raw pipes -------------------------------------------------

func writeFrame(fd int, b []byte) {
	var l [4]byte
	binary.LittleEndian.PutUint32(l[:], uint32(len(b)))
	simrt.RawWrite(fd, l[:])
	if len(b) > 0 {
		simrt.RawWrite(fd, b)
	}
}

func readFrame(fd int) ([]byte, bool) {
	var l [4]byte
	if !simrt.RawRead(fd, l[:]) {
		return nil, false
	}
	n := binary.LittleEndian.Uint32(l[:])
	b := make([]byte, n)
	if n > 0 && !simrt.RawRead(fd, b) {
		return nil, false
	}
	return b, true
}

func (s *Sim) startClients() {
	for i := 0; i < NClients; i++ {
		c := &client{idx: i}
		c.cmdR, c.cmdW = simrt.RawPipe()
		c.resR, c.resW = simrt.RawPipe()
		s.clients[i] = c
		go s.clientLoop(c.idx, c.cmdR, c.resW)
	}
}

func (s *Sim) stopClients() {
	for _, c := range s.clients {
		if c != nil {
			simrt.RawClose(c.cmdW) // client sees EOF and exits
		}
	}
}

// clientLoop runs in its own goroutine; it shares no Go memory with the
// controller (commands and results travel as bytes).
func (s *Sim) clientLoop(idx, cmdR, resW int) {
	st := newClientState(s, idx)
	for {
		b, ok := readFrame(cmdR)
		if !ok {
			st.cleanup()
			simrt.RawClose(cmdR)
			simrt.RawClose(resW)
			return
		}
		var op Op
		json.Unmarshal(b, &op)
		res := st.exec(op)
		rb, _ := json.Marshal(res)
		simrt.Emit(simrt.EvClientDone, 0, int32(idx), 0, 0)
		writeFrame(resW, rb)
	}
}

// ---- event pump ----------------------------------------------------------------

func (s *Sim) handle(ev simrt.Event) {
	switch ev.Kind {
	case simrt.EvSpawned:
		s.spawned++
	case simrt.EvArrive:
		if ev.A == 0 {
			k := int(ev.Sub)
			for _, o := range s.jobs {
				// a job whose completion is being posted may still be listed: which of
				// the two events arrives first is not decided by the controller
				if o.kind == k && o.state != jPosting {
					s.res.Count("probe_two_jobs_of_kind_"+simrt.KindNames[k], 1)
				}
			}
			j := &jobRec{kind: k, seq: s.arrivedKind[k], wfd: int(ev.B), state: jBegin, held: -1, arg: simrt.LastJobArg(k), spawnStep: s.stepNo}
			s.arrivedKind[k]++
			s.arrived++
			s.jobs = append(s.jobs, j)
		} else if ev.A == 2 {
			if j := s.jobByFD(int(ev.B)); j != nil {
				j.state = jMid
			}
		} else {
			if j := s.jobByFD(int(ev.B)); j != nil {
				j.state = jPost
			}
		}
	case simrt.EvPosted, simrt.EvExited:
		for i, j := range s.jobs {
			if j.wfd == int(ev.B) {
				s.jobs = append(s.jobs[:i], s.jobs[i+1:]...)
				break
			}
		}
	case simrt.EvWorkerIdle:
		s.workerIdle++
	case simrt.EvClientDone:
		s.clients[ev.A].done = true
	}
}

func (s *Sim) hasJob(j *jobRec) bool {
	for _, o := range s.jobs {
		if o == j {
			return true
		}
	}
	return false
}

func (s *Sim) jobByFD(fd int) *jobRec {
	for _, j := range s.jobs {
		if j.wfd == fd {
			return j
		}
	}
	return nil
}

// waitFor pumps events until cond holds. A timeout is a hang of the system
// under test (or of the harness) and ends the run.
func (s *Sim) waitFor(cond func() bool, what string) {
	for !cond() {
		ev, ok := simrt.ReadEvent(s.watchdogMS)
		if !ok {
			s.hang = what
			panic(hangError{what})
		}
		s.handle(ev)
	}
}

func (s *Sim) call(c int, op Op) OpResult {
	cl := s.clients[c]
	cl.done = false
	idle0 := s.workerIdle
	b, _ := json.Marshal(op)
	writeFrame(cl.cmdW, b)
	s.waitFor(func() bool { return cl.done }, fmt.Sprintf("client %d op %s", c, op.K))
	rb, ok := readFrame(cl.resR)
	var r OpResult
	if ok {
		json.Unmarshal(rb, &r)
	}
	if op.K == "New" && ok && r.Err == "" {
		// a new service starts its tag event worker, which reports idle once on
		// its own; that report must not be taken for the end of a later tick
		s.waitFor(func() bool { return s.workerIdle > idle0 }, "tag event worker start")
	}
	return r
}

// send/recv: a call split in two, so that two clients can be inside API
// calls at the same time (Storm).
func (s *Sim) send(c int, op Op) {
	cl := s.clients[c]
	cl.done = false
	b, _ := json.Marshal(op)
	writeFrame(cl.cmdW, b)
}

func (s *Sim) recv(c int, what string) OpResult {
	cl := s.clients[c]
	s.waitFor(func() bool { return cl.done }, what)
	rb, ok := readFrame(cl.resR)
	var r OpResult
	if ok {
		json.Unmarshal(rb, &r)
	}
	return r
}

func (s *Sim) settle() {
	s.call(CBarrier, Op{K: "Barrier"})
	s.waitFor(func() bool { return s.arrived == s.spawned }, "spawned jobs reach their begin gate")
}

// probe runs an oracle operation on the probe client without perturbing
// clock and map-order streams.
func (s *Sim) probe(op Op) OpResult {
	sv := simrt.Save()
	r := s.call(CBarrier, op)
	simrt.Restore(sv)
	return r
}

// ---- steps ------------------------------------------------------------------------

type stepRef struct {
	label string
	kind  string // api | body | post | tick | restart
	c     int
	job   *jobRec
}

func (s *Sim) enabled() []stepRef {
	var out []stepRef
	if !s.alive {
		return out
	}
	// "slow job" fault: decided in canonical job order so that the draw does
	// not depend on the arrival order of gate events
	for _, j := range s.sortedJobs() {
		if j.held < 0 {
			j.held = 0
			if s.plan.Hold > 0 && s.replay == nil && s.rng.IntN(1000) < s.plan.Hold {
				j.held = 1 + s.rng.IntN(15)
				s.res.Count("fault_slow_job", 1)
			}
		}
	}
	for c := 1; c < NClients; c++ {
		if s.opNext[c] < len(s.ops[c]) {
			out = append(out, stepRef{label: "api:" + strconv.Itoa(s.ops[c][s.opNext[c]].ID), kind: "api", c: c})
		}
	}
	for _, j := range s.sortedJobs() {
		switch j.state {
		case jBegin, jMid:
			out = append(out, stepRef{label: "body:" + j.name(), kind: "body", job: j})
		case jPost:
			out = append(out, stepRef{label: "post:" + j.name(), kind: "post", job: j})
		}
	}
	return out
}

func (s *Sim) sortedJobs() []*jobRec {
	js := append([]*jobRec(nil), s.jobs...)
	sort.Slice(js, func(i, j int) bool {
		if js[i].kind != js[j].kind {
			return js[i].kind < js[j].kind
		}
		return js[i].seq < js[j].seq
	})
	return js
}

func (s *Sim) record(label string) {
	s.steps = append(s.steps, label)
	s.stepNo++
	kind, _, _ := strings.Cut(label, ":")
	s.res.Count("step_"+kind, 1)
}

// execQuiet runs a background step without the per-step oracles (used while
// draining a restarted instance).
func (s *Sim) execQuiet(st stepRef) {
	switch st.kind {
	case "body":
		st.job.state = jRunning
		simrt.Release(st.job.wfd, false)
		j := st.job
		s.waitFor(func() bool { return j.state == jPost || j.state == jMid }, "body of "+j.name()+" after restart")
	case "post":
		j := st.job
		j.state = jPosting
		simrt.Release(j.wfd, false)
		s.waitFor(func() bool { return !s.hasJob(j) }, "post of "+j.name()+" after restart")
		s.settle()
	}
}

func (s *Sim) exec(st stepRef) {
	s.record(st.label)
	s.inStep = true
	defer func() { s.inStep = false }()
	simrt.Advance(time.Duration(1+s.stepNo%7) * 13 * time.Millisecond)
	switch st.kind {
	case "api":
		op := s.ops[st.c][s.opNext[st.c]]
		s.opNext[st.c]++
		if !s.or.admit(op) {
			s.res.Count("op_skipped_by_guard", 1)
			break
		}
		if op.K == "Import" {
			op.Convs = nil
			for _, fi := range op.Files {
				if fi < len(s.capt.Names) {
					name := s.capt.Names[fi]
					if err := copyFile(s.scratch+"/src/"+name, s.dirs.Pcap+name, 0o644); err == nil {
						op.Convs = append(op.Convs, name)
					}
				}
			}
		}
		if op.K == "AddEndpoint" && op.Addr == "LOOPBACK" {
			if s.loopback == "" {
				break
			}
			op.Addr = s.loopback
		}
		if op.K == "ImportBad" {
			// a corrupt upload: garbage, an empty file, or a capture cut inside a packet record
			name := fmt.Sprintf("bad%03d.pcap", op.ID)
			var content []byte
			switch op.V {
			case 0:
				content = []byte("this is not a capture file\n")
			case 1:
				content = nil
			case 3:
				// a capture with its file header and no packet record
				name = fmt.Sprintf("empty%03d.pcap", op.ID)
				content = []byte{0xd4, 0xc3, 0xb2, 0xa1, 2, 0, 4, 0, 0, 0, 0, 0, 0, 0, 0, 0, 0, 0, 4, 0, 1, 0, 0, 0}
				os.WriteFile(s.scratch+"/src/"+name, content, 0o644)
				s.res.Count("fault_empty_capture", 1)
			default:
				if len(s.capt.Names) > 0 {
					b, _ := os.ReadFile(s.scratch + "/src/" + s.capt.Names[0])
					if len(b) > 40 {
						content = b[:len(b)-7]
					}
				}
			}
			os.WriteFile(s.dirs.Pcap+name, content, 0o644)
			op.K = "Import"
			op.Convs = nil
			good := func(files []int) {
				for _, fi := range files {
					if fi < len(s.capt.Names) {
						n := s.capt.Names[fi]
						if err := copyFile(s.scratch+"/src/"+n, s.dirs.Pcap+n, 0o644); err == nil {
							op.Convs = append(op.Convs, n)
						}
					}
				}
			}
			good(op.Files)
			op.Convs = append(op.Convs, name)
			good(op.After)
			if op.V != 3 {
				s.res.Count("fault_corrupt_capture", 1)
			}
		}
		if op.K == "Storm" {
			// more concurrent on-demand conversions than the converter has processes,
			// and a converter reset while some of them wait for a process: two API
			// clients at the same time, in real time (the converter is slowed down
			// for the duration) — the one step kind that is not one-actor-at-a-time;
			// only liveness is judged afterwards (C09 plans, run indices outside
			// the determinism probe)
			slow := s.scratch + "/vconv/slowmode"
			os.WriteFile(slow, nil, 0o644)
			s.send(CView, Op{K: "StormData", V: op.V, Conv: op.Conv})
			time.Sleep(40 * time.Millisecond)
			s.send(CMut, Op{K: "ResetConv", Conv: op.Conv})
			s.recv(CMut, "converter reset during a conversion storm")
			s.recv(CView, "conversion storm")
			os.Remove(slow)
			s.settle()
			s.res.Count("fault_conversion_storm_with_reset", 1)
			break
		}
		if (op.K == "OpenView" || op.K == "ReadView") && !s.plan.NoOracle {
			// the same searches at every read of a view (stability), and searches
			// without a filter must list exactly the view's streams (completeness)
			op.Def = strings.Join(viewBattery(s.plan), "\x00")
		} else if (op.K == "OpenView" || op.K == "ReadView") && s.plan.Prop == "C20" {
			// searches that read payloads and converter output on the caller's
			// goroutine while jobs read them on theirs (results are not compared)
			b := []string{"data:\"FLAG\" sort:id", "sport:80,443 sort:id"}
			for _, c := range s.plan.Converters {
				b = append(b, fmt.Sprintf("data.%s:\"vconv\" sort:id", c))
			}
			op.Def = strings.Join(b, "\x00")
		}
		s.or.beforeAPI(op)
		wf := s.writeFault("api", 0, op.ID)
		if wf != nil {
			simrt.SetFsizeLimit(wf.Limit)
		}
		r := s.call(st.c, op)
		s.settle()
		if wf != nil {
			simrt.SetFsizeLimit(0)
			s.res.Count("fault_disk_full_during_api", 1)
			s.or.afterWriteFaultAPI(op, r)
		}
		s.or.afterAPI(op, r)
	case "body":
		first := st.job.state == jBegin
		st.job.state = jRunning
		if first {
			s.or.beforeBody(st.job)
		} else {
			s.res.Count("probe_job_continued_after_mid_body_gate", 1)
		}
		if wf := s.writeFault(simrt.KindNames[st.job.kind], st.job.seq, 0); wf != nil {
			simrt.SetFsizeLimit(wf.Limit)
			s.res.Count("fault_disk_full_during_"+simrt.KindNames[st.job.kind], 1)
		}
		simrt.Release(st.job.wfd, false)
		j := st.job
		s.waitFor(func() bool { return j.state == jPost || j.state == jMid }, "body of "+j.name())
		simrt.SetFsizeLimit(0)
		if j.state == jPost {
			s.or.afterBody(st.job)
		}
	case "post":
		j := st.job
		j.state = jPosting
		s.or.beforePost(j)
		wf := s.writeFault("post-"+simrt.KindNames[j.kind], j.seq, 0)
		if wf != nil {
			simrt.SetFsizeLimit(wf.Limit)
			s.res.Count("fault_disk_full_during_completion_of_"+simrt.KindNames[j.kind], 1)
		}
		simrt.Release(j.wfd, false)
		s.waitFor(func() bool { return !s.hasJob(j) }, "post of "+j.name())
		s.settle()
		if wf != nil {
			simrt.SetFsizeLimit(0)
			s.restartSoon = s.restartSoon || wf.Restart
		}
		s.or.afterPost(j)
	case "tick":
		n := s.workerIdle
		if simrt.Fire() {
			s.waitFor(func() bool { return s.workerIdle > n }, "tag event worker tick")
			s.settle()
		}
	}
	s.or.afterStep(st)
}

// writeFault: the disk-full fault planned for this step, if any.
func (s *Sim) writeFault(kind string, seq, opID int) *WriteFault {
	for i := range s.plan.WriteFail {
		f := &s.plan.WriteFail[i]
		if f.Kind != kind {
			continue
		}
		if kind == "api" && f.OpID == opID || kind != "api" && f.Seq == seq {
			return f
		}
	}
	return nil
}

// restartWanted: C12 and C13 restart the service at any step. The other
// properties do not quantify over restarts; their plans contain clean restarts
// only at instants at which a restart loses nothing the property speaks about:
// no import queued or running (an upload whose import has not completed is
// registered as known by the next start without ever being indexed, DESIGN
// §8.4) and no converter job between its body and its completion (its output
// for a superseded payload, the known finding of C16, would never be dropped).
func (s *Sim) restartWanted() bool {
	switch s.plan.Prop {
	case "C12", "C13", "C09":
		return true
	}
	if s.or.state != nil && len(s.or.state.ImportJobs) > 0 {
		return false
	}
	for _, j := range s.jobs {
		if j.kind == simrt.KindImport {
			return false
		}
		// a converter job that has not started yet has stored nothing: the next
		// start must queue its streams again by itself
		if j.kind == simrt.KindConvert && j.state != jBegin {
			return false
		}
	}
	return true
}

// choose picks the next step in search mode.
func (s *Sim) choose(en []stepRef) (stepRef, bool) {
	var api, bg []stepRef
	for _, e := range en {
		if e.kind == "api" {
			api = append(api, e)
		} else if e.job.held > 0 {
			e.job.held--
		} else {
			bg = append(bg, e)
		}
	}
	if len(api) == 0 && len(bg) == 0 {
		// only held jobs remain
		for _, e := range en {
			if e.kind != "api" {
				e.job.held = 0
				return e, true
			}
		}
		return stepRef{}, false
	}
	if s.rng.IntN(100) < 3 {
		return stepRef{label: "tick", kind: "tick"}, true
	}
	if len(bg) > 0 && (len(api) == 0 || s.rng.IntN(1000) < s.plan.BgBias) {
		return bg[s.rng.IntN(len(bg))], true
	}
	return api[s.rng.IntN(len(api))], true
}

func (s *Sim) nextReplay(en []stepRef) (stepRef, bool) {
	for s.replayPos < len(s.replay) {
		l := s.replay[s.replayPos]
		s.replayPos++
		if l == "tick" {
			return stepRef{label: "tick", kind: "tick"}, true
		}
		if l == "restart" {
			return stepRef{label: "restart", kind: "restart"}, true
		}
		for _, e := range en {
			if e.label == l {
				return e, true
			}
		}
		s.skipped++
	}
	// canonical continuation: finish background work first, then the next API op
	for _, e := range en {
		if e.kind != "api" {
			return e, true
		}
	}
	for _, e := range en {
		return e, true
	}
	return stepRef{}, false
}

func (s *Sim) runSchedule() {
	restartAt := map[int]bool{}
	for _, r := range s.plan.Restarts {
		restartAt[r] = true
	}
	// the step budget bounds the part of the run in which API calls are made;
	// a C09 drain goes on until nothing is enabled or its own bound is exceeded
	// (otherwise a ping-pong of background jobs could never exceed a bound that
	// is larger than the budget)
	for s.stepNo < s.plan.MaxSteps || (s.draining && s.or.on("C09") && s.drainN <= s.or.drainBound+1) {
		en := s.enabled()
		var st stepRef
		var ok bool
		if s.replay != nil {
			st, ok = s.nextReplay(en)
		} else {
			if s.restartSoon {
				s.restartSoon = false
				restartAt[s.stepNo] = true
			}
			if restartAt[s.stepNo] && !s.restartWanted() {
				// not now (see restartWanted): try again after the next step
				delete(restartAt, s.stepNo)
				restartAt[s.stepNo+1] = true
				s.res.Count("restart_postponed", 1)
			}
			if restartAt[s.stepNo] {
				delete(restartAt, s.stepNo)
				st, ok = stepRef{label: "restart", kind: "restart"}, true
			} else {
				st, ok = s.choose(en)
			}
		}
		if !ok {
			break
		}
		if st.kind == "restart" {
			s.record("restart")
			s.inStep = true
			s.cleanRestart()
			s.inStep = false
			continue
		}
		apiLeft := false
		for c := 1; c < NClients; c++ {
			if s.opNext[c] < len(s.ops[c]) {
				apiLeft = true
			}
		}
		if !apiLeft {
			if !s.draining {
				s.draining = true
				s.or.drainStart()
			}
			s.drainN++
		}
		s.exec(st)
		if s.res.Viol != nil {
			return
		}
	}
	if s.stepNo >= s.plan.MaxSteps && len(s.enabled()) != 0 {
		s.res.Count("cut_by_step_budget", 1)
	}
}

// viewBattery: searches run through held views; they do not mention tags
// (the tag set changes during a run, the battery of a view must not).
func viewBattery(p *Plan) []string {
	b := []string{"sort:ftime", "sort:id", "sort:-ltime,id limit:4", "sport:80,443 sort:id", "data:\"FLAG\" sort:id", "data.none:\"alpha\" sort:id", "protocol:udp sort:id", "cbytes:100: sort:-id", "PAGED:sort:sport", "PAGED:sort:-cbytes limit:3", "PAGED:protocol:tcp sort:shost", "sort:chost,id", "sort:-shost,id limit:3", "chost:10.0.0.0/8 sort:id", "host:fd00::/16 sort:id", "-chost:10.0.0.0/8 sort:id", "-shost:fd00::/16 sort:id", "@s:id:0 ftime:@s:ltime@: sort:id"}
	for _, off := range []int64{10, 75} {
		t := time.Unix(p.Net.BaseUnix+off, 0).UTC().Format("2006-01-02 150405")
		b = append(b, fmt.Sprintf("ltime:\"%s:\" sort:id", t), fmt.Sprintf("ltime:\":%s\" sort:id", t), fmt.Sprintf("ftime:\":%s\" sort:id", t), fmt.Sprintf("ftime:\"%s:\" sort:id", t))
	}
	return b
}
