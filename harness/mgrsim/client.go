package mgrsim

import (
	"context"
	"crypto/sha256"
	"encoding/hex"
	"encoding/json"
	"fmt"
	"os"
	"path/filepath"
	"sort"
	"strings"
	"sync"

	"github.com/spq/pkappa2/internal/index"
	"github.com/spq/pkappa2/internal/index/manager"
	"github.com/spq/pkappa2/internal/query"
	"github.com/spq/pkappa2/verif/oracle"
)

// StreamLite is the compact signature of one visible stream.
type StreamLite struct {
	ID      uint64   `json:"id"`
	Key     string   `json:"key"`   // content hash (endpoints, payload, directions, packet refs)
	Tuple   string   `json:"tuple"` // proto|client|server
	Digest  string   `json:"dg"`    // vconv digest of the payload chunks
	Tags    []string `json:"tags,omitempty"`
	Bytes   int      `json:"bytes"`
	Packets int      `json:"pkts"`
}

type ViewSig struct {
	Indexes []string                     `json:"indexes"`
	Streams []StreamLite                 `json:"streams"`
	TagBits map[string][2][]uint         `json:"tagbits,omitempty"`
	Search  map[string][]uint64          `json:"search,omitempty"`
	SErr    map[string]string            `json:"serr,omitempty"`
	Conv    map[string]map[uint64]string `json:"conv,omitempty"` // converter -> stream -> digest found in cached output ("" = none, "!" = malformed)
	Err     string                       `json:"err,omitempty"`
}

var debugQ = os.Getenv("VERIF_DEBUG_Q") != ""

func (v *ViewSig) Hash() string {
	h := sha256.New()
	fmt.Fprintf(h, "%v|", v.Indexes)
	for _, s := range v.Streams {
		fmt.Fprintf(h, "%d:%s:%v;", s.ID, s.Key, s.Tags)
	}
	for _, q := range sortedKeys(v.Search) {
		fmt.Fprintf(h, "%s=%v;", q, v.Search[q])
	}
	for _, q := range sortedKeys(v.SErr) {
		fmt.Fprintf(h, "%s!%s;", q, v.SErr[q])
	}
	return hex.EncodeToString(h.Sum(nil)[:10])
}

func sortedKeys[V any](m map[string]V) []string {
	ks := make([]string, 0, len(m))
	for k := range m {
		ks = append(ks, k)
	}
	sort.Strings(ks)
	return ks
}

type OpResult struct {
	Err    string              `json:"err,omitempty"`
	State  *manager.VerifState `json:"state,omitempty"`
	G      map[string][]uint   `json:"g,omitempty"`
	GErr   map[string]string   `json:"gerr,omitempty"`
	View   *ViewSig            `json:"view,omitempty"`
	Tags   []manager.TagInfo   `json:"tags,omitempty"`
	Status *manager.Statistics `json:"status,omitempty"`
	Names  []string            `json:"names,omitempty"`
	Text   string              `json:"text,omitempty"`
	Found  bool                `json:"found,omitempty"`
}

type clientState struct {
	s     *Sim
	idx   int
	views map[int]*manager.View
}

func newClientState(s *Sim, idx int) *clientState {
	return &clientState{s: s, idx: idx, views: map[int]*manager.View{}}
}

func (st *clientState) cleanup() {}

func errStr(err error) string {
	if err == nil {
		return ""
	}
	return err.Error()
}

// VconvDigest computes what the harness converter prints for a payload.
func VconvDigest(data []index.Data) string {
	h := sha256.New()
	for _, d := range data {
		h.Write([]byte{byte(d.Direction)})
		h.Write(d.Content)
	}
	return hex.EncodeToString(h.Sum(nil)[:6])
}

func digestIn(data []index.Data) string {
	if len(data) == 0 {
		return "empty" // same word as VerifCached uses for a cached empty output
	}
	c := string(data[0].Content)
	if !strings.HasPrefix(c, "[vconv ") || len(c) < 20 || c[19] != ']' {
		return "!"
	}
	return c[7:19]
}

// viewSig reads everything through the view. battery: search queries.
// prefetch makes viewSig use the PrefetchAllTags option (what the HTTP API
// does for stream lists): pending tags are evaluated inside the view.
var prefetch = false

func viewSigPrefetch(v *manager.View) *ViewSig {
	sig := &ViewSig{}
	names, err := v.VerifIndexNames()
	if err != nil {
		sig.Err = "fetch: " + err.Error()
		return sig
	}
	sig.Indexes = names
	err = v.AllStreams(context.Background(), func(sc manager.StreamContext) error {
		tags, err := sc.AllTags()
		if err != nil {
			return err
		}
		sig.Streams = append(sig.Streams, StreamLite{ID: sc.Stream().ID(), Tags: tags})
		return nil
	}, manager.PrefetchAllTags())
	if err != nil {
		sig.Err = "AllStreams(PrefetchAllTags): " + err.Error()
	}
	sort.Slice(sig.Streams, func(i, j int) bool { return sig.Streams[i].ID < sig.Streams[j].ID })
	return sig
}

func viewSig(v *manager.View, withTags bool, battery []string, convs []string) *ViewSig {
	sig := &ViewSig{}
	names, err := v.VerifIndexNames()
	if err != nil {
		sig.Err = "fetch: " + err.Error()
		return sig
	}
	sig.Indexes = names
	ctx := context.Background()
	opts := []manager.StreamsOption{}
	if withTags {
		tb, err := v.VerifTagDetails()
		if err != nil {
			sig.Err = "tagdetails: " + err.Error()
			return sig
		}
		sig.TagBits = tb
	}
	seen := map[uint64]bool{}
	err = v.AllStreams(ctx, func(sc manager.StreamContext) error {
		s := sc.Stream()
		if seen[s.ID()] {
			return fmt.Errorf("stream %d enumerated twice", s.ID())
		}
		seen[s.ID()] = true
		ss, err := oracle.SigOf(s)
		if err != nil {
			return err
		}
		data, err := s.Data()
		if err != nil {
			return err
		}
		sl := StreamLite{ID: s.ID(), Key: ss.ContentKey(), Tuple: fmt.Sprintf("%s|%s:%d|%s:%d", ss.Proto, ss.ClientIP, ss.ClientPort, ss.ServerIP, ss.ServerPort), Digest: VconvDigest(data), Bytes: len(ss.Data[0]) + len(ss.Data[1]), Packets: len(ss.Packets)}
		if withTags {
			tags, err := sc.AllTags()
			if err != nil {
				return err
			}
			sl.Tags = tags
		}
		sig.Streams = append(sig.Streams, sl)
		return nil
	}, opts...)
	if err != nil {
		sig.Err = "AllStreams: " + err.Error()
		return sig
	}
	sort.Slice(sig.Streams, func(i, j int) bool { return sig.Streams[i].ID < sig.Streams[j].ID })
	// every stream must also be reachable by ID
	for _, sl := range sig.Streams {
		sc, err := v.Stream(sl.ID)
		if err != nil || sc.Stream() == nil {
			sig.Err = fmt.Sprintf("Stream(%d): %v", sl.ID, err)
			return sig
		}
		if bs, err := oracle.SigOf(sc.Stream()); err != nil {
			sig.Err = fmt.Sprintf("Stream(%d): %v", sl.ID, err)
			return sig
		} else if bs.ContentKey() != sl.Key {
			sig.Err = fmt.Sprintf("Stream(%d) returns another version of the stream (%d+%d bytes, %d packets) than the view's stream list (%d bytes, %d packets)", sl.ID, len(bs.Data[0]), len(bs.Data[1]), len(bs.Packets), sl.Bytes, sl.Packets)
			return sig
		}
	}
	if len(battery) > 0 {
		sig.Search = map[string][]uint64{}
		sig.SErr = map[string]string{}
		for _, qs := range battery {
			if pq, ok := strings.CutPrefix(qs, "PAGED:"); ok {
				// the same search page by page (page size 2 unless the query says
				// limit:N), as a result list in the UI is read: the pages together
				// are the result
				q, err := query.Parse(pq)
				if err != nil {
					sig.SErr[qs] = "parse: " + err.Error()
					continue
				}
				ids := []uint64{}
				for page := uint(0); page < 60; page++ {
					more, _, _, err := v.SearchStreams(ctx, q, func(sc manager.StreamContext) error {
						ids = append(ids, sc.Stream().ID())
						return nil
					}, manager.Limit(2, page))
					if err != nil {
						sig.SErr[qs] = err.Error()
						break
					}
					if !more {
						break
					}
				}
				if _, bad := sig.SErr[qs]; !bad {
					sig.Search[qs] = ids
				}
				continue
			}
			q, err := query.Parse(qs)
			if err != nil {
				sig.SErr[qs] = "parse: " + err.Error()
				continue
			}
			ids := []uint64{}
			if debugQ {
				fmt.Fprintf(os.Stderr, "QUERY %s\n", qs)
			}
			_, _, _, err = v.SearchStreams(ctx, q, func(sc manager.StreamContext) error {
				ids = append(ids, sc.Stream().ID())
				return nil
			})
			if err != nil {
				sig.SErr[qs] = err.Error()
				continue
			}
			sig.Search[qs] = ids
		}
	}
	if len(convs) > 0 {
		sig.Conv = map[string]map[uint64]string{}
		rd, _ := v.VerifReaders()
		_ = rd
		for _, cn := range convs {
			m := map[uint64]string{}
			for _, sl := range sig.Streams {
				d, ok := v.VerifCached(cn, sl.ID)
				if ok {
					m[sl.ID] = d
				}
			}
			sig.Conv[cn] = m
		}
	}
	return sig
}

func (st *clientState) exec(op Op) (r OpResult) {
	mgr := st.s.curMgr()
	defer func() {
		if e := recover(); e != nil {
			r.Err = fmt.Sprintf("PANIC in client: %v", e)
		}
	}()
	switch op.K {
	case "Barrier":
		mgr.VerifBarrier()
	case "State":
		s := mgr.VerifState()
		r.State = &s
		stt := mgr.Status()
		r.Status = &stt
		r.Tags = mgr.ListTags()
	case "Recompute":
		r.G, r.GErr = mgr.VerifRecompute()
	case "FreshViewPrefetchPage":
		// one result page of the stream list: a search whose hits are shown with
		// all their tags, pending tags evaluated for the hits only
		v := mgr.GetView()
		sig := &ViewSig{}
		q, err := query.Parse(op.Def)
		if err != nil {
			sig.Err = "parse: " + err.Error()
		} else {
			_, _, _, err = v.SearchStreams(context.Background(), q, func(sc manager.StreamContext) error {
				tags, err := sc.AllTags()
				if err != nil {
					return err
				}
				sig.Streams = append(sig.Streams, StreamLite{ID: sc.Stream().ID(), Tags: tags})
				return nil
			}, manager.PrefetchAllTags())
			if err != nil {
				sig.Err = "SearchStreams(PrefetchAllTags): " + err.Error()
			}
		}
		r.View = sig
		v.Release()
	case "FreshViewPrefetch":
		v := mgr.GetView()
		r.View = viewSigPrefetch(&v)
		v.Release()
	case "FreshView":
		v := mgr.GetView()
		var battery []string
		if op.Def != "" {
			battery = strings.Split(op.Def, "\x00")
		}
		r.View = viewSig(&v, op.On, battery, op.Convs)
		v.Release()
	case "Close":
		mgr.Close()
	case "New":
		d := st.s.dirs
		if op.Name != "" {
			d = dirsAt(op.Name)
		}
		m, err := manager.New(d.Pcap, d.Index, d.Snapshot, d.State, d.Converter, "")
		if err != nil {
			r.Err = err.Error()
			return
		}
		st.s.setMgr(m)
	case "Listen":
		ch, _ := mgr.Listen()
		go func() {
			// like the websocket handler: every event is encoded, which reads
			// everything the event points to
			for ev := range ch {
				json.Marshal(ev)
			}
		}()

	case "AddTag":
		r.Err = errStr(mgr.AddTag(op.Name, op.Color, op.Def))
	case "DelTag":
		r.Err = errStr(mgr.DelTag(op.Name))
	case "UpdQuery":
		r.Err = errStr(mgr.UpdateTag(op.Name, manager.UpdateTagOperationUpdateQuery(op.Def)))
	case "UpdColor":
		r.Err = errStr(mgr.UpdateTag(op.Name, manager.UpdateTagOperationUpdateColor(op.Color)))
	case "UpdName":
		r.Err = errStr(mgr.UpdateTag(op.Name, manager.UpdateTagOperationUpdateName(op.NewName)))
	case "MarkAdd":
		r.Err = errStr(mgr.UpdateTag(op.Name, manager.UpdateTagOperationMarkAddStream(op.IDs)))
	case "MarkDel":
		r.Err = errStr(mgr.UpdateTag(op.Name, manager.UpdateTagOperationMarkDelStream(op.IDs)))
	case "SetConv":
		cs := op.Convs
		if cs == nil {
			cs = []string{}
		}
		r.Err = errStr(mgr.UpdateTag(op.Name, manager.UpdateTagOperationSetConverter(cs)))
	case "ResetConv":
		r.Err = errStr(mgr.ResetConverter(op.Conv))
	case "ConvRemove":
		// the file goes away (the real watcher watches nothing in simulation), then the event
		os.Remove(filepath.Join(st.s.dirs.Converter, op.Conv))
		r.Err = errStr(mgr.VerifConverterFileEvent("remove", op.Conv))
	case "ConvCreate":
		copyFile(VconvPath, filepath.Join(st.s.dirs.Converter, op.Conv), 0o755)
		r.Err = errStr(mgr.VerifConverterFileEvent("create", op.Conv))
	case "ConvWrite":
		// written or made executable (again): a change event
		if _, err := os.Stat(filepath.Join(st.s.dirs.Converter, op.Conv)); err != nil {
			copyFile(VconvPath, filepath.Join(st.s.dirs.Converter, op.Conv), 0o755)
		}
		os.Chmod(filepath.Join(st.s.dirs.Converter, op.Conv), 0o755)
		r.Err = errStr(mgr.VerifConverterFileEvent("write", op.Conv))
	case "Status":
		stt := mgr.Status()
		r.Status = &stt
	case "ConvStderr":
		_, err := mgr.ConverterStderr(op.Conv, 1)
		r.Err = errStr(err)
	case "PrefetchPage":
		v := mgr.GetView()
		if q, err := query.Parse(op.Def); err == nil {
			_, _, _, err = v.SearchStreams(context.Background(), q, func(sc manager.StreamContext) error {
				_, err := sc.AllTags()
				return err
			}, manager.PrefetchAllTags(), manager.Limit(1, 0))
			r.Err = errStr(err)
		}
		v.Release()
	case "ListConverters":
		for _, c := range mgr.ListConverters() {
			r.Names = append(r.Names, fmt.Sprintf("%s:%d:%d", c.Name, c.CachedStreamCount, len(c.Processes)))
		}
	case "ListTags":
		r.Tags = mgr.ListTags()
	case "KnownPcaps":
		for _, k := range mgr.KnownPcaps() {
			r.Names = append(r.Names, k.Filename)
		}
	case "ListEndpoints":
		for _, e := range mgr.ListPcapOverIPEndpoints() {
			r.Names = append(r.Names, e.Address)
		}
		r.Names = append(r.Names, mgr.ListPcapProcessorWebhooks()...)
	case "SetConfig":
		r.Err = errStr(mgr.SetConfig(manager.Config{AutoInsertLimitToQuery: op.On}))
	case "AddWebhook":
		r.Err = errStr(mgr.AddPcapProcessorWebhook(op.Addr))
	case "DelWebhook":
		r.Err = errStr(mgr.DelPcapProcessorWebhook(op.Addr))
	case "AddEndpoint":
		r.Err = errStr(mgr.AddPcapOverIPEndpoint(op.Addr))
	case "DelEndpoint":
		r.Err = errStr(mgr.DelPcapOverIPEndpoint(op.Addr))
	case "PoipFeed":
		// packets arriving over a PCAP-over-IP connection: the endpoint reader is
		// replaced, the packet handler, capture writer and queued import are real
		capt := st.s.capt
		if len(op.Files) > 0 && op.Files[0] < len(capt.Files) {
			pk := capt.Files[op.Files[0]]
			n := op.V
			if n > len(pk) {
				n = len(pk)
			}
			var frames [][]byte
			var ts []int64
			for _, q := range pk[:n] {
				frames = append(frames, q.Data)
				ts = append(ts, q.TimeUS)
			}
			mgr.VerifFeedPcapOverIP(frames, ts)
		}
	case "Import":
		r.Names = op.Convs // file names are passed in Convs by the controller
		mgr.ImportPcaps(op.Convs)

	case "OpenView":
		v := mgr.GetView()
		st.views[op.V] = &v
		var battery []string
		if op.Def != "" {
			battery = strings.Split(op.Def, "\x00")
		}
		r.View = viewSig(&v, true, battery, nil)
	case "ReadView":
		v := st.views[op.V]
		if v == nil {
			r.Err = "no such view"
			return
		}
		var battery []string
		if op.Def != "" {
			battery = strings.Split(op.Def, "\x00")
		}
		r.View = viewSig(v, true, battery, nil)
	case "ReleaseView":
		v := st.views[op.V]
		if v == nil {
			r.Err = "no such view"
			return
		}
		v.Release()
		delete(st.views, op.V)
	case "ConvertAndReset":
		// a converter that is restarted again and again, each time right after it
		// converted something (it then has an idle process)
		v := mgr.GetView()
		if sc, err := v.Stream(op.Stream); err == nil && sc.Stream() != nil {
			sc.Data(op.Conv)
		}
		v.Release()
		r.Err = errStr(mgr.ResetConverter(op.Conv))
	case "StormData":
		// many viewers at once: op.V concurrent on-demand conversions of distinct
		// streams with one converter (more callers than converter processes)
		var wg sync.WaitGroup
		for i := 0; i < op.V; i++ {
			wg.Add(1)
			go func(id uint64) {
				defer wg.Done()
				v := mgr.GetView()
				defer v.Release()
				if sc, err := v.Stream(id); err == nil && sc.Stream() != nil {
					sc.Data(op.Conv)
				}
			}(uint64(i))
		}
		wg.Wait()
	case "DropViews":
		// the manager these views belong to is gone
		st.views = map[int]*manager.View{}
	case "StreamData":
		v := st.views[op.V]
		if v == nil {
			r.Err = "no such view"
			return
		}
		sc, err := v.Stream(op.Stream)
		if err != nil {
			r.Err = err.Error()
			return
		}
		if sc.Stream() == nil {
			return
		}
		r.Found = true
		raw, err := sc.Stream().Data()
		if err != nil {
			r.Err = "raw: " + err.Error()
			return
		}
		want := VconvDigest(raw)
		data, err := sc.Data(op.Conv)
		if err != nil {
			r.Err = err.Error()
			return
		}
		if op.Conv != "" {
			r.Text = want + "/" + digestIn(data)
			if len(raw) == 0 {
				r.Text = "empty"
			}
		}
	default:
		r.Err = "unknown op " + op.K
	}
	return
}
