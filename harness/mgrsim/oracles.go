package mgrsim

import (
	"fmt"
	"os"
	"path/filepath"
	"sort"
	"strings"
	"time"

	"github.com/spq/pkappa2/internal/index/manager"
	"github.com/spq/pkappa2/internal/query"
	"github.com/spq/pkappa2/verif/oracle"
	"github.com/spq/pkappa2/verif/sim"
	"github.com/spq/pkappa2/verif/simrt"
)

type heldView struct {
	first    *ViewSig
	hash     string
	battery  []string
	openStep int
	known    []string // pcaps processed when the view was opened
}

type oracles struct {
	s    *Sim
	prop string

	state     *manager.VerifState // after the last step
	prevState *manager.VerifState
	tags      []manager.TagInfo
	status    *manager.Statistics

	held map[int]*heldView

	drainBound int
	maxDrain   int

	preMerge *ViewSig

	refCache map[string][]*oracle.StreamSig

	convJobActive     bool
	convLogLen        int
	attachedAtSpawn   map[string]bool
	convSpawnAttached map[int]map[string]bool // convert job seq -> converters attached when it was spawned
	onDemand          map[string]bool         // "conv/stream" converted on demand by a user

	stateSigs map[string]bool

	lastProcessed []string

	everCached map[string]bool // conv/stream had output at some step

	attachedAfter map[int]map[string]bool // step -> converters attached to some tag after that step
	secondLives   int
	ackMarks      map[string]map[uint64]bool // mark tag -> streams added by acknowledged calls
	apiLogStart   int
	apiLogLines   map[int]bool // lines of the converter invocation log written during API calls

	convLogSeen int

	furtherHistory bool

	importFailLeft, failedCreates                 int
	importWasInFlight, cleanRestartImportInFlight bool
	preRestart                                    *modelAt
	completeOff                                   bool
	durabilityUnknown                             bool // a call returned an error while the disk was full: memory may be ahead of the disk
	inRestart                                     bool
	firstSeen                                     map[string]string
	cacheEvents                                   []cacheEvent     // API steps that changed converter caches
	changedAt                                     map[string][]int // tag -> steps at which its matches or definition changed
	flagged                                       map[string]bool
	onDemandNote                                  string
	lastAPI                                       *struct {
		op Op
		r  OpResult
	}
}

func newOracles(s *Sim) *oracles {
	return &oracles{everCached: map[string]bool{}, attachedAfter: map[int]map[string]bool{}, importFailLeft: s.plan.ImportFail, furtherHistory: s.plan.Prop == "C12", s: s, prop: s.plan.Prop, held: map[int]*heldView{}, refCache: map[string][]*oracle.StreamSig{}, convSpawnAttached: map[int]map[string]bool{}, onDemand: map[string]bool{}, stateSigs: map[string]bool{}, firstSeen: map[string]string{}, changedAt: map[string][]int{}, flagged: map[string]bool{}}
}

// trigger names the kind of step at which a violation was first observed.
func (o *oracles) trigger() string {
	l := lastOf(o.s.steps)
	if id, ok := strings.CutPrefix(l, "api:"); ok {
		for _, op := range o.s.plan.Ops {
			if fmt.Sprint(op.ID) == id {
				return "api:" + op.K
			}
		}
	}
	if i := strings.Index(l, "#"); i > 0 {
		return l[:i]
	}
	return l
}

// violate records a violation. A violation whose key is listed as a known
// finding is only counted (with its first message) and the run goes on, so
// that a known defect does not hide other violations; the return value
// tells the caller whether the run is over.
func (o *oracles) violate(oracleName, sig, msg string) bool {
	v := &sim.Violation{Property: o.prop, Oracle: oracleName, Signature: sig, Message: fmt.Sprintf("step %d (%s): %s", o.s.stepNo, lastOf(o.s.steps), msg)}
	if sim.Known[v.Key()] {
		o.s.res.Count("known:"+v.Key(), 1)
		if o.s.res.KnownMsg == nil {
			o.s.res.KnownMsg = map[string]string{}
		}
		if _, ok := o.s.res.KnownMsg[v.Key()]; !ok {
			o.s.res.KnownMsg[v.Key()] = v.Message
		}
		return false
	}
	if o.s.res.Viol == nil {
		o.s.res.Viol = v
	}
	return true
}

func lastOf(l []string) string {
	if len(l) == 0 {
		return "-"
	}
	return l[len(l)-1]
}

func (o *oracles) on(props ...string) bool {
	if o.s.plan.NoOracle {
		return false
	}
	for _, p := range props {
		if p == o.prop {
			return true
		}
	}
	return false
}

func (o *oracles) refreshState() {
	r := o.s.probe(Op{K: "State"})
	o.prevState = o.state
	o.state, o.tags, o.status = r.State, r.Tags, r.Status
}

func (o *oracles) start() {
	if o.s.plan.NoOracle {
		return
	}
	o.refreshState()
	if o.s.crash != nil {
		o.s.crash.models = append(o.s.crash.models, o.crashModel())
	}
}

func setOf(l []uint) map[uint]bool {
	m := make(map[uint]bool, len(l))
	for _, x := range l {
		m[x] = true
	}
	return m
}

func (o *oracles) tagByName(n string) *manager.VerifTag {
	if o.state == nil {
		return nil
	}
	for i := range o.state.Tags {
		if o.state.Tags[i].Name == n {
			return &o.state.Tags[i]
		}
	}
	return nil
}

// rank gives the only direction in which generated definitions may
// reference other tags outside C11 runs, so that no cycle can form.
func rank(name string) int {
	for i, n := range []string{"mark/m", "generated/g", "service/s", "service/t", "tag/a", "tag/b", "tag/c"} {
		if n == name {
			return i
		}
	}
	return 100
}

func defRefs(def string) []string {
	var out []string
	for _, typ := range []string{"tag", "service", "mark", "generated"} {
		rest := def
		for {
			i := strings.Index(rest, typ+":")
			if i < 0 {
				break
			}
			// must not be part of a longer key (e.g. "cdata:")
			if i > 0 && (rest[i-1] >= 'a' && rest[i-1] <= 'z') {
				rest = rest[i+len(typ)+1:]
				continue
			}
			j := i + len(typ) + 1
			k := j
			for k < len(rest) && (rest[k] >= 'a' && rest[k] <= 'z' || rest[k] >= '0' && rest[k] <= '9') {
				k++
			}
			if k > j {
				out = append(out, typ+"/"+rest[j:k])
			}
			rest = rest[k:]
		}
	}
	return out
}

// atoms counts the filter terms of a definition (rough: one per key:value).
func atoms(def string) int {
	n := strings.Count(def, ":") - 2*strings.Count(def, "@o:")
	if n < 1 {
		n = 1
	}
	return n
}

// inlineWeight estimates how large a tag becomes when the search engine has
// to inline it (undecided tags are replaced by their definitions, a
// construction that grows super-exponentially along reference chains; that
// is a property of the normal form, not something the checks are about).
func inlineWeight(defs map[string]string, name string, depth int) int {
	if depth > 8 {
		return 1 << 20
	}
	def, ok := defs[name]
	if !ok {
		return 1
	}
	w := atoms(def)
	if strings.Contains(def, " or ") {
		w *= 2
	}
	for _, r := range defRefs(def) {
		w *= 1 + inlineWeight(defs, r, depth+1)
	}
	return w
}

const maxInlineWeight = 12

// reaches: does the definition of from (transitively) reference target?
func reaches(defs map[string]string, from, target string, depth int) bool {
	if depth > 12 {
		return false
	}
	for _, r := range defRefs(defs[from]) {
		if r == target || reaches(defs, r, target, depth+1) {
			return true
		}
	}
	return false
}

// admit keeps runs of other properties away from the inputs C11 is about
// (dangling references and cycles created through updates), so that a C11
// defect does not masquerade as a violation of the property under test,
// and keeps the tag graph small enough for searches to stay prompt.
func (o *oracles) admit(op Op) bool {
	if o.prop == "C11" {
		return true
	}
	if op.K != "AddTag" && op.K != "UpdQuery" {
		return true
	}
	for _, r := range defRefs(op.Def) {
		if o.state != nil && o.tagByName(r) == nil {
			return false
		}
		// C09 also sends updates that would close a reference cycle (the API has
		// to reject them; a cycle makes the service loop spin)
		if rank(r) >= rank(op.Name) && o.prop != "C09" {
			return false
		}
	}
	if o.state != nil {
		defs := map[string]string{}
		for _, t := range o.state.Tags {
			defs[t.Name] = t.Definition
		}
		defs[op.Name] = op.Def
		if o.prop == "C09" && reaches(defs, op.Name, op.Name, 0) {
			// would close a cycle: sent, and has to be rejected by the service
			o.s.res.Count("probe_cyclic_definition_sent", 1)
			return true
		}
		for n := range defs {
			if inlineWeight(defs, n, 0) > maxInlineWeight {
				return false
			}
		}
	}
	return true
}

// negatable: a negated search on this tag stays small.
func (o *oracles) negatable(name string) bool {
	defs := map[string]string{}
	for _, t := range o.state.Tags {
		defs[t.Name] = t.Definition
	}
	// negated protocol conditions and negated sub-queries are excluded: the
	// former make normalisation take seconds, the latter are outside what
	// the query language supports (sub-queries are restricted, C02)
	var closure func(n string, d int) bool
	closure = func(n string, d int) bool {
		def := defs[n]
		if d > 8 || strings.Contains(def, "protocol") || strings.Contains(def, "@") {
			return false
		}
		// negating a definition means multiplying out one factor per alternative
		// of its disjunctive form: with eight alternatives that takes more than
		// half a minute (DESIGN §8.4)
		if q, err := query.Parse(def); err != nil || len(q.Conditions) > 4 {
			return false
		}
		for _, r := range defRefs(def) {
			if !closure(r, d+1) {
				return false
			}
		}
		return true
	}
	return closure(name, 0) && inlineWeight(defs, name, 0) <= 3 && strings.Count(defs[name], "data") <= 1
}

func (o *oracles) beforeAPI(op Op) {
	if o.convJobActive && o.on("C16") {
		o.apiLogStart = len(o.vconvLog())
	} else {
		o.apiLogStart = -1
	}
}

func (o *oracles) afterAPI(op Op, r OpResult) {
	if o.apiLogStart >= 0 {
		// converter invocations made by an API call (on-demand conversion, whether
		// it succeeded or not) while a converter job is parked between two rounds
		// are not the job's
		if o.apiLogLines == nil {
			o.apiLogLines = map[int]bool{}
		}
		for i, n := o.apiLogStart, len(o.vconvLog()); i < n; i++ {
			o.apiLogLines[i] = true
		}
		o.apiLogStart = -1
	}
	if o.s.plan.NoOracle {
		return
	}
	o.lastAPI = &struct {
		op Op
		r  OpResult
	}{op, r}
	if op.K == "UpdName" && r.Err == "" && op.NewName != "" {
		// a stale bit keeps its cause when the tag is renamed
		oldP, newP := "tag/"+op.Name+"/", "tag/"+op.NewName+"/"
		for k, v := range o.firstSeen {
			if strings.HasPrefix(k, oldP) {
				o.firstSeen[newP+strings.TrimPrefix(k, oldP)] = v
				delete(o.firstSeen, k)
			}
		}
	}
	switch op.K {
	case "ResetConv", "DelTag", "SetConv":
		// may reset a converter cache (detaching the last tag resets it)
		if r.Err == "" {
			o.cacheEvents = append(o.cacheEvents, cacheEvent{o.s.stepNo, "api:" + op.K, -1})
		}
	case "OpenView":
		o.viewOpened(op, r)
	case "ReadView":
		o.viewRead(op, r)
	case "ReleaseView":
		delete(o.held, op.V)
	case "StreamData":
		// a view is a snapshot: a stream that did not exist when it was opened is
		// not reachable through it, whatever was imported since
		if hv := o.held[op.V]; hv != nil && r.Err == "" && r.Found && o.on("C10", "C13", "C05", "C07", "C08") {
			inView := false
			for _, sl := range hv.first.Streams {
				if sl.ID == op.Stream {
					inView = true
				}
			}
			if !inView && hv.first.Err == "" {
				if o.violate("view", "foreign-stream", fmt.Sprintf("view %d (opened at step %d, %d streams) returns stream %d, which it does not list", op.V, hv.openStep, len(hv.first.Streams), op.Stream)) {
					return
				}
			}
		}
		o.onDemandNote = ""
		if op.Conv != "" && r.Err == "" && r.Found {
			// was the view the user converted through still current for that stream?
			if hv := o.held[op.V]; hv != nil {
				fr := o.s.probe(Op{K: "FreshView"})
				cur := ""
				if fr.View != nil {
					for _, sl := range fr.View.Streams {
						if sl.ID == op.Stream {
							cur = sl.Key
						}
					}
				}
				o.onDemandNote = "/current-view"
				for _, sl := range hv.first.Streams {
					if sl.ID == op.Stream && sl.Key != cur {
						o.onDemandNote = "/superseded-view"
					}
				}
			}
			o.onDemand[fmt.Sprintf("%s/%d", op.Conv, op.Stream)] = true
			o.cacheEvents = append(o.cacheEvents, cacheEvent{o.s.stepNo, "api:StreamData", int64(op.Stream)})
			o.s.res.Count("probe_on_demand_conversion", 1)
			if o.on("C16") && r.Text != "empty" && o.onDemandNote == "/current-view" {
				want, got, _ := strings.Cut(r.Text, "/")
				if got != want {
					key := fmt.Sprintf("conv/%s/%d/%s", op.Conv, op.Stream, got)
					sig, seen := o.firstSeen[key]
					if !seen {
						sig = "on-demand-stale/current-view"
					}
					o.violate("convert", sig, fmt.Sprintf("StreamData(%d,%s) returned output made for payload %s, the view's payload is %s", op.Stream, op.Conv, got, want))
				}
			}
		}
	}
}

func (o *oracles) beforeBody(j *jobRec) {
	if j.kind == simrt.KindConvert {
		o.convJobActive = true
		o.convLogSeen = len(o.vconvLog())
	}
	// disk error faults: the file system refuses to create index files
	if j.kind == simrt.KindMerge && (o.s.plan.MergeFail || j.seq < o.s.plan.MergeFailN) {
		simrt.FailCreates(".idx", -1)
	}
	if j.kind == simrt.KindImport && o.importFailLeft > 0 {
		simrt.FailCreates(".idx", 1)
		o.importFailLeft--
	}
}

// vconvLog returns the invocation log of the harness converter.
func (o *oracles) vconvLog() []string {
	b, err := os.ReadFile(filepath.Join(o.s.scratch, "vconv", "log"))
	if err != nil {
		return nil
	}
	return strings.Split(strings.TrimSpace(string(b)), "\n")
}

func (o *oracles) afterBody(j *jobRec) {
	if j.kind == simrt.KindConvert && o.on("C16") {
		// "detaching stops further runs": a converter job may only run converters
		// that were attached to some tag when the job was started
		lines := o.vconvLog()
		att, known := o.attachedAfter[j.spawnStep]
		for li := min(o.convLogSeen, len(lines)); li < len(lines); li++ {
			l := lines[li]
			if o.apiLogLines[li] {
				continue
			}
			name, rest, _ := strings.Cut(l, " ")
			sid, _, _ := strings.Cut(rest, " ")
			// re-converting a stream whose earlier output an import invalidated is
			// what the property asks for, attached or not
			if known && name != "" && !att[name] && !o.everCached[name+"/"+sid] && !o.onDemand[name+"/"+sid] {
				if o.violate("convert", "ran-detached", fmt.Sprintf("converter job %s (started at step %d, when %s was attached to no tag) ran converter %s: %q", j.name(), j.spawnStep, name, name, l)) {
					break
				}
			}
			o.s.res.Count("c16_invocations_checked", 1)
		}
		o.convLogSeen = len(lines)
	}
	simrt.FailCreates("", 0)
	if n := simrt.FailedCreates(); n > o.failedCreates {
		o.s.res.Count("fault_create_error_"+simrt.KindNames[j.kind], int64(n-o.failedCreates))
		o.failedCreates = n
	}
}

func (o *oracles) beforePost(j *jobRec) {
	if o.s.plan.NoOracle {
		return
	}
	if j.kind == simrt.KindMerge && o.on("C07") {
		r := o.s.probe(Op{K: "FreshView", On: true, Def: strings.Join(o.battery(), "\x00")})
		o.preMerge = r.View
	}
}

func (o *oracles) afterPost(j *jobRec) {
	if j.kind == simrt.KindConvert {
		o.convJobActive = false
		// output a job stored for a superseded payload may live until the job
		// completes, not longer: what is still stale now is judged afresh
		for k := range o.firstSeen {
			if strings.HasPrefix(k, "conv/") && strings.HasSuffix(o.firstSeen[k], "@body:convert") {
				delete(o.firstSeen, k)
			}
		}
	}
	if o.s.plan.NoOracle {
		return
	}
	if j.kind == simrt.KindMerge && o.on("C07") && o.preMerge != nil {
		r := o.s.probe(Op{K: "FreshView", On: true, Def: strings.Join(o.battery(), "\x00")})
		o.compareMerge(o.preMerge, r.View)
		o.preMerge = nil
	}
}

// battery is the fixed set of searches used to compare views.
func (o *oracles) battery() []string {
	b := []string{"sport:80", "cport:20000:30000", "data:\"FLAG\"", "cdata:alpha sort:id", "sbytes:100: sort:-id", "chost:10.0.1.0/24", "protocol:udp", "id:1:4", "sort:ftime", "sort:-ftime limit:3", "sort:id limit:2", "data:\"[a-z]beta\" or sport:443", "-data:\"passwd\" sort:cbytes,id", "ftime:\"2020-09-13 000000:\" sort:ltime,id", "host:fd00::1:0/112", "sort:chost,id", "sort:-shost,id limit:3", "chost:10.0.0.0/8 sort:id", "host:fd00::/16 sort:id", "-chost:10.0.0.0/8 sort:id", "-shost:fd00::/16 sort:id", "@s:id:0 ftime:@s:ltime@: sort:id", "@s:id:1 ltime::@s:ftime@+10s sort:id", "@s:id:2 ftime:@s:ftime@-30s:@s:ltime@+30s sort:id"}
	// time filters with bounds inside the capture (per-file time ranges are used for pruning)
	for _, off := range []int64{3, 20, 61, 200, 700} {
		t := time.Unix(o.s.plan.Net.BaseUnix+off, 0).UTC().Format("2006-01-02 150405")
		b = append(b, fmt.Sprintf("ltime:\"%s:\" sort:id", t), fmt.Sprintf("ltime:\":%s\" sort:id", t), fmt.Sprintf("ftime:\":%s\" sort:id", t))
	}
	if o.state != nil {
		for _, t := range o.state.Tags {
			b = append(b, refName(t.Name))
			if o.negatable(t.Name) {
				b = append(b, "-"+refName(t.Name)+" sort:id")
			}
		}
	}
	return b
}

func (o *oracles) drainStart() {
	if o.state == nil {
		o.drainBound = 1 << 30
		return
	}
	T := len(o.state.Tags)
	F := len(o.state.ImportJobs)
	C := len(o.state.Converters)
	o.drainBound = 200 + 40*(T+1)*(F+C+1)
}

func (o *oracles) afterStep(st stepRef) {
	if o.s.plan.NoOracle {
		return
	}
	if !(st.kind == "api" && o.lastAPI != nil && o.lastAPI.op.K == "StreamData") {
		o.onDemandNote = ""
	}
	o.refreshState()
	if o.state == nil {
		o.s.res.Infra = "state probe failed"
		return
	}
	o.processed()
	if o.s.crash != nil {
		o.s.crash.models = append(o.s.crash.models, o.crashModel())
	}
	att := map[string]bool{}
	for _, t := range o.state.Tags {
		for _, c := range t.Converters {
			att[c] = true
		}
	}
	o.attachedAfter[o.s.stepNo] = att
	o.noteTagChanges()
	if os.Getenv("VERIF_TRACE") != "" {
		fmt.Fprintf(os.Stderr, "TRACE step %d %s:", o.s.stepNo, st.label)
		for _, t := range o.state.Tags {
			fmt.Fprintf(os.Stderr, " %s=%q m=%v u=%v;", t.Name, t.Definition, t.Matches, t.Uncertain)
		}
		fmt.Fprintf(os.Stderr, " idx=%v jobs=%d\n", o.state.Indexes, len(o.s.jobs))
	}
	o.noteProbes(st)
	if o.s.draining && o.on("C09") && o.s.drainN > o.drainBound {
		o.violate("settle", "drain-bound", fmt.Sprintf("%d background steps after the last API call (bound %d): jobs keep restarting", o.s.drainN, o.drainBound))
	}
	if o.on("C06") {
		o.checkTags(st)
	}
	if o.on("C13") {
		o.checkRefcounts(false)
	}
	if o.on("C16") {
		o.checkConverters(false)
	}
	if o.on("C11") {
		if st.kind == "api" && o.lastAPI != nil && o.s.writeFault("api", 0, o.lastAPI.op.ID) == nil {
			o.checkAtomic(o.lastAPI.op, o.lastAPI.r)
		} else if st.kind == "api" && o.lastAPI != nil {
			// a call made while the disk was full: what it did to the tag is not
			// judged (it may have answered with an error and applied the change), so
			// nothing is known any more about which marks of that tag must stay
			delete(o.ackMarks, o.lastAPI.op.Name)
			if o.lastAPI.op.NewName != "" {
				delete(o.ackMarks, o.lastAPI.op.NewName)
			}
		}
		if o.s.res.Viol == nil {
			o.checkGraph()
		}
	}
	o.lastAPI = nil
}

func (o *oracles) noteProbes(st stepRef) {
	res := o.s.res
	tagInFlight, mergeInFlight, convInFlight, importInFlight := false, false, false, false
	for _, j := range o.s.jobs {
		switch j.kind {
		case simrt.KindTag:
			tagInFlight = true
		case simrt.KindMerge:
			mergeInFlight = true
		case simrt.KindConvert:
			convInFlight = true
		case simrt.KindImport:
			importInFlight = true
		}
	}
	if st.kind == "post" && st.job.kind == simrt.KindImport && tagInFlight {
		res.Count("probe_import_applied_during_tag_job", 1)
		res.NonTriv = true
	}
	if st.kind == "api" && tagInFlight {
		res.Count("probe_api_during_tag_job", 1)
		res.NonTriv = true
	}
	if st.kind == "post" && st.job.kind == simrt.KindImport && convInFlight {
		res.Count("probe_import_applied_during_convert_job", 1)
		res.NonTriv = true
	}
	if st.kind == "post" && st.job.kind == simrt.KindMerge {
		res.Count("probe_merge_applied", 1)
		if len(o.held) > 0 {
			res.Count("probe_view_held_across_merge", 1)
		}
		if importInFlight {
			res.Count("probe_merge_applied_during_import", 1)
		}
		res.NonTriv = true
	}
	if mergeInFlight && importInFlight {
		res.Count("probe_merge_and_import_in_flight", 1)
	}
	if st.kind == "post" && st.job.kind == simrt.KindConvert {
		res.Count("probe_convert_applied", 1)
	}
	// state signature: index stack shape x per-tag (decided,uncertain) pattern x flags
	var sb strings.Builder
	fmt.Fprintf(&sb, "%d|%v%v%v|%d|", len(o.state.Indexes), o.state.MergeRunning, o.state.TaggingRunning, o.state.ConverterRunning, len(o.state.ImportJobs))
	for _, t := range o.state.Tags {
		fmt.Fprintf(&sb, "%s:%d/%d;", t.Name, len(t.Matches), len(t.Uncertain))
	}
	sig := sim.Hash(sb.String())
	if os.Getenv("VERIF_DEBUG_STATES") != "" {
		sig = fmt.Sprintf("%s@%d(%s:%s)", sb.String(), o.s.stepNo, st.kind, st.label)
	}
	if !o.stateSigs[sig] {
		o.stateSigs[sig] = true
		res.States = append(res.States, sig)
	}
}

func (o *oracles) onHang(what string) {
	// C16: "every stream matching a tag with an attached converter eventually has
	// output" — a conversion that never returns is the plainest way to break it
	convHang := o.on("C16") && (strings.Contains(what, "convert") || strings.Contains(what, "ConvertAndReset") || strings.Contains(what, "StreamData") || strings.Contains(what, "ResetConv"))
	if o.on("C09", "C11") || convHang {
		kind := what
		if i := strings.IndexAny(what, "#0123456789"); i > 0 {
			kind = strings.TrimSpace(what[:i])
		}
		o.violate("hang", "hang:"+kind, "the service did not respond within the watchdog: waiting for "+what)
	} else {
		o.s.res.Infra = "hang (service or harness) while waiting for " + what + " — see C09/C11"
	}
}

// final runs when no step is enabled any more (or the budget was used up).
func (o *oracles) final() {
	if o.s.plan.NoOracle || o.state == nil {
		return
	}
	if len(o.s.enabled()) != 0 {
		// cut by the step budget
		return
	}
	if o.s.plan.Poip {
		// packets fed to the PCAP-over-IP handler are written and queued for import
		// by goroutines outside the schedule: give them (real) time to hand their
		// captures over, and run what they start, before judging quiescence
		quiet := 0
		for i := 0; i < 400 && quiet < 5; i++ {
			time.Sleep(5 * time.Millisecond)
			o.s.settle()
			ran := false
			for _, e := range o.s.enabled() {
				if e.kind != "api" {
					o.s.exec(e)
					ran = true
					break
				}
			}
			if o.s.res.Viol != nil {
				return
			}
			o.refreshState()
			if ran || o.state == nil || len(o.state.ImportJobs) > 0 || len(o.s.jobs) > 0 {
				quiet = 0
			} else {
				quiet++
			}
		}
	}
	// one tick so that pending tag events are flushed, then re-check
	o.s.exec(stepRef{label: "tick", kind: "tick"})
	if o.s.res.Viol != nil {
		return
	}
	if o.on("C09") {
		o.checkQuiescent()
	}
	if o.s.drainN > o.maxDrain {
		o.maxDrain = o.s.drainN
	}
	o.s.res.Count("max_drain_steps", 0)
	if int64(o.s.drainN) > o.s.res.Counters["max_drain_steps"] {
		o.s.res.Counters["max_drain_steps"] = int64(o.s.drainN)
	}
	if o.on("C13") {
		o.checkRefcounts(true)
	}
	if o.on("C16") {
		o.checkConverters(true)
	}
	if o.on("C06") {
		// at quiescence nothing may be pending and everything must be right
		o.checkTags(stepRef{kind: "final"})
	}
}

func (o *oracles) checkQuiescent() {
	st := o.state
	if len(st.ImportJobs) != 0 {
		o.violate("quiescent", "stuck:import-queue", fmt.Sprintf("no background step enabled but import queue holds %v", st.ImportJobs))
	}
	if st.MergeRunning || st.TaggingRunning || st.ConverterRunning {
		o.violate("quiescent", "stuck:running-flag", fmt.Sprintf("no job exists but flags are merge=%v tagging=%v convert=%v", st.MergeRunning, st.TaggingRunning, st.ConverterRunning))
	}
	for _, t := range st.Tags {
		if len(t.Uncertain) != 0 {
			o.violate("quiescent", "stuck:uncertain", fmt.Sprintf("tag %s keeps %d streams pending and no tagging job is running", t.Name, len(t.Uncertain)))
		}
	}
	attached := map[string]bool{}
	for _, t := range st.Tags {
		for _, c := range t.Converters {
			attached[c] = true
		}
	}
	for c, l := range st.StreamsToConvert {
		if attached[c] && len(l) != 0 {
			o.violate("quiescent", "stuck:to-convert", fmt.Sprintf("converter %s has %d queued streams and no converter job", c, len(l)))
		}
	}
	if o.status != nil && (o.status.ImportJobCount != 0 || o.status.MergeJobRunning || o.status.TaggingJobRunning || o.status.ConverterJobRunning) {
		o.violate("quiescent", "stuck:status", fmt.Sprintf("Status reports %+v", *o.status))
	}
	for _, ti := range o.tags {
		if ti.UncertainCount != 0 {
			o.violate("quiescent", "stuck:uncertain", fmt.Sprintf("ListTags reports %d uncertain streams for %s", ti.UncertainCount, ti.Name))
		}
	}
}

// ---- C06 ------------------------------------------------------------------------

// convReading: the definition contains a payload filter that looks at
// converter output: data.<conv>: explicitly, or a plain data:/cdata:/sdata:
// filter, which searches every representation of a stream (raw payload and
// all cached converter outputs). Only data.none: is raw-only.
func convReading(def string) bool {
	rest := def
	for {
		i := strings.Index(rest, "data")
		if i < 0 {
			return false
		}
		after := rest[i+4:]
		switch {
		case strings.HasPrefix(after, ".none:"), strings.HasPrefix(after, ".none="):
		case strings.HasPrefix(after, ":"), strings.HasPrefix(after, "="), strings.HasPrefix(after, "."):
			return true
		}
		rest = after
	}
}

type cacheEvent struct {
	step   int
	what   string // api:StreamData | api:ResetConv
	stream int64  // -1 = all
}

// cacheChangedDuringJob: did an API call change converter output (on-demand
// conversion, converter reset) while the tagging job that just completed for
// name was in flight? That is the cause recorded as a known finding under the
// API step; the job only makes it visible when it publishes.
func (o *oracles) cacheChangedDuringJob(name string, stream uint, j *jobRec) string {
	if j == nil || j.kind != simrt.KindTag || j.arg != name {
		return ""
	}
	for _, e := range o.cacheEvents {
		if e.step > j.spawnStep && e.step <= o.s.stepNo && (e.stream < 0 || e.stream == int64(stream)) {
			return e.what
		}
	}
	return ""
}

// noteTagChanges records at which steps a tag's membership or definition changed.
func (o *oracles) noteTagChanges() {
	prev := map[string]string{}
	if o.prevState != nil {
		for _, t := range o.prevState.Tags {
			prev[t.Name] = fmt.Sprint(t.Definition, t.Matches)
		}
	}
	cur := map[string]bool{}
	for _, t := range o.state.Tags {
		cur[t.Name] = true
		if p, ok := prev[t.Name]; !ok || p != fmt.Sprint(t.Definition, t.Matches) {
			o.changedAt[t.Name] = append(o.changedAt[t.Name], o.s.stepNo)
		}
	}
	for n := range prev {
		if !cur[n] {
			o.changedAt[n] = append(o.changedAt[n], o.s.stepNo)
		}
	}
}

// refChangedDuringJob: did a tag that name (transitively) references change
// while the tagging job that just completed for name was in flight?
func (o *oracles) refChangedDuringJob(name string, j *jobRec) bool {
	if j == nil || j.kind != simrt.KindTag || j.arg != name {
		return false
	}
	defs := map[string]string{}
	for _, t := range o.state.Tags {
		defs[t.Name] = t.Definition
	}
	seen := map[string]bool{name: true}
	todo := defRefs(defs[name])
	for len(todo) > 0 {
		r := todo[0]
		todo = todo[1:]
		if seen[r] {
			continue
		}
		seen[r] = true
		for _, st := range o.changedAt[r] {
			if st > j.spawnStep && st <= o.s.stepNo {
				return true
			}
		}
		todo = append(todo, defRefs(defs[r])...)
	}
	return false
}

// rootClass names the cause class of a tag for violation signatures: the
// tag's own definition and everything it references count.
func (o *oracles) rootClass(name string, gerr map[string]string) string {
	defs := map[string]string{}
	for _, t := range o.state.Tags {
		defs[t.Name] = t.Definition
	}
	seen := map[string]bool{}
	var closure []string
	var walk func(n string)
	walk = func(n string) {
		if seen[n] {
			return
		}
		seen[n] = true
		closure = append(closure, n)
		for _, r := range defRefs(defs[n]) {
			walk(r)
		}
	}
	walk(name)
	for _, n := range closure {
		if gerr[n] == "impossible" {
			return "impossible-definition"
		}
	}
	for _, n := range closure {
		if strings.Contains(defs[n], "@") {
			return "subquery"
		}
	}
	for _, n := range closure {
		if convReading(defs[n]) {
			return "converter-data"
		}
	}
	if len(closure) > 1 {
		return "tag-ref"
	}
	return defClass(defs[name])
}

// readsConverter: the tag or a tag it references reads converter output.
func (o *oracles) readsConverter(name string) bool {
	defs := map[string]string{}
	for _, t := range o.state.Tags {
		defs[t.Name] = t.Definition
	}
	seen := map[string]bool{}
	var walk func(n string) bool
	walk = func(n string) bool {
		if seen[n] {
			return false
		}
		seen[n] = true
		if convReading(defs[n]) {
			return true
		}
		for _, r := range defRefs(defs[n]) {
			if walk(r) {
				return true
			}
		}
		return false
	}
	return walk(name)
}

func (o *oracles) checkTags(st stepRef) {
	r := o.s.probe(Op{K: "Recompute"})
	for _, n := range sortedKeys(r.GErr) {
		// a definition the reference cannot evaluate: not a verdict about C06
		if r.GErr[n] != "impossible" {
			o.s.res.Count("recompute_errors", 1)
		}
	}
	o.flagged = map[string]bool{}
	n := uint(o.state.NextStreamID)
	// referenced tags first, so that a tag computed from a stale referenced
	// tag is attributed to the root cause
	order := []string{}
	done := map[string]bool{}
	byName := map[string]int{}
	for i, t := range o.state.Tags {
		byName[t.Name] = i
	}
	var visit func(name string, depth int)
	visit = func(name string, depth int) {
		if done[name] || depth > 16 {
			return
		}
		done[name] = true
		if i, ok := byName[name]; ok {
			for _, ref := range o.state.Tags[i].References {
				visit(ref, depth+1)
			}
			order = append(order, name)
		}
	}
	for _, t := range o.state.Tags {
		visit(t.Name, 0)
	}
	sigOf := map[string]string{}
	for _, name := range order {
		t := o.state.Tags[byName[name]]
		g, ok := r.G[t.Name]
		if !ok {
			continue
		}
		class := o.rootClass(t.Name, r.GErr)
		readsConv := o.readsConverter(t.Name)
		if o.convJobActive && readsConv {
			o.s.res.Count("c06_relaxed_converter_in_flight", 1)
			o.flagged[t.Name] = true
			continue
		}
		G, M, U := setOf(g), setOf(t.Matches), setOf(t.Uncertain)
		for s := uint(0); s < n; s++ {
			if U[s] {
				continue
			}
			if M[s] != G[s] {
				kind := "missing"
				if M[s] {
					kind = "extra"
				}
				// a stale bit stays stale: attribute it to the step at which it was first seen
				key := fmt.Sprintf("tag/%s/%d/%v/%s", t.Name, s, M[s], t.Definition)
				sig, seen := o.firstSeen[key]
				if !seen {
					sig = class + "/" + kind + "@" + o.trigger()
					if st.kind == "post" && o.refChangedDuringJob(t.Name, st.job) {
						sig = "ref-changed-during-job/" + kind + "@post:tag"
					} else if st.kind == "post" && readsConv {
						if w := o.cacheChangedDuringJob(t.Name, s, st.job); w != "" {
							sig = "converter-data/" + kind + "@" + w
						}
					}
					if st.kind == "final" {
						sig = class + "/" + kind + "@quiescence"
					}
					// computed from a referenced tag that is itself stale right now: same root cause
					for _, ref := range t.References {
						if rs, ok := sigOf[ref]; ok {
							sig = rs
						}
					}
					o.firstSeen[key] = sig
				}
				o.flagged[t.Name] = true
				sigOf[t.Name] = sig
				if o.violate("tag-stale", sig, fmt.Sprintf("tag %s (%q): stream %d is reported decided, member=%v, but evaluating the definition gives %v (matches=%v uncertain=%v recomputed=%v)", t.Name, t.Definition, s, M[s], G[s], t.Matches, t.Uncertain, g)) {
					return
				}
				break
			}
		}
		if rs, ok := sigOf[t.Name]; !ok {
			// not stale itself, but pass on the flag of a stale referenced tag
			for _, ref := range t.References {
				if x, ok := sigOf[ref]; ok {
					rs = x
					sigOf[t.Name] = rs
				}
			}
		}
		o.s.res.Count("c06_tag_checks", 1)
	}
	// what a user sees through a view opened now
	var battery []string
	for _, t := range o.state.Tags {
		battery = append(battery, refName(t.Name)+" sort:id")
		if o.negatable(t.Name) {
			battery = append(battery, "-"+refName(t.Name)+" sort:id")
		}
	}
	if o.convJobActive {
		return
	}
	vr := o.s.probe(Op{K: "FreshView", On: true, Def: strings.Join(battery, "\x00")})
	v := vr.View
	if v == nil || v.Err != "" {
		msg := "no result"
		if v != nil {
			msg = v.Err
		}
		o.violate("view", "view-error", "fresh view failed: "+msg)
		return
	}
	var all []uint64
	for _, sl := range v.Streams {
		all = append(all, sl.ID)
	}
	// a tag that references a tag flagged above inherits the flag: its
	// answers are judged at the root cause only
	for changed := true; changed; {
		changed = false
		for _, t := range o.state.Tags {
			if o.flagged[t.Name] {
				continue
			}
			for _, ref := range t.References {
				if o.flagged[ref] {
					o.flagged[t.Name] = true
					changed = true
				}
			}
		}
	}
	for _, t := range o.state.Tags {
		g, ok := r.G[t.Name]
		if !ok || o.flagged[t.Name] {
			continue
		}
		class := o.rootClass(t.Name, r.GErr)
		G := setOf(g)
		bits := v.TagBits[t.Name]
		VU := setOf(bits[1])
		bad := false
		for _, sl := range v.Streams {
			if VU[uint(sl.ID)] {
				continue
			}
			has := false
			for _, tn := range sl.Tags {
				if tn == t.Name {
					has = true
				}
			}
			if has != G[uint(sl.ID)] {
				bad = true
				if o.violate("view-tags", class+"/shown@"+o.trigger(), fmt.Sprintf("view shows tag %s on stream %d = %v, definition %q evaluates to %v", t.Name, sl.ID, has, t.Definition, G[uint(sl.ID)])) {
					return
				}
				break
			}
		}
		if bad {
			continue
		}
		for _, neg := range []bool{false, true} {
			q := refName(t.Name) + " sort:id"
			if neg {
				q = "-" + q
			}
			if e := v.SErr[q]; e != "" {
				o.s.res.Count("c06_search_errors", 1)
				continue
			}
			got, asked := v.Search[q]
			if !asked {
				continue
			}
			var want []uint64
			for _, id := range all {
				if G[uint(id)] != neg {
					want = append(want, id)
				}
			}
			if fmt.Sprint(got) != fmt.Sprint(want) {
				pol := "positive"
				if neg {
					pol = "negated"
				}
				if o.violate("search-tags", class+"/"+pol+"-search", fmt.Sprintf("search %q returned %v, want %v (tag %s = %q)", q, got, want, t.Name, t.Definition)) {
					return
				}
				continue
			}
			o.s.res.Count("c06_search_checks", 1)
		}
	}
	// a view that evaluates pending tags itself (PrefetchAllTags, the stream
	// list of the HTTP API): every shown tag must be right, pending or not
	pr := o.s.probe(Op{K: "FreshViewPrefetch"})
	pv := pr.View
	if pv == nil {
		return
	}
	if pv.Err != "" {
		if strings.Contains(pv.Err, "not found") || strings.Contains(pv.Err, "same converter name") {
			// a definition names a converter that does not exist: evaluation legitimately fails
			o.s.res.Count("c06_prefetch_errors", 1)
			return
		}
		o.violate("view-prefetch", "error", "stream list with prefetched tags failed: "+pv.Err)
		return
	}
	for _, t := range o.state.Tags {
		g, ok := r.G[t.Name]
		if !ok || o.flagged[t.Name] || r.GErr[t.Name] != "" && r.GErr[t.Name] != "impossible" {
			continue
		}
		G := setOf(g)
		class := o.rootClass(t.Name, r.GErr)
		for _, sl := range pv.Streams {
			has := false
			for _, tn := range sl.Tags {
				if tn == t.Name {
					has = true
				}
			}
			if has != G[uint(sl.ID)] {
				if o.violate("view-prefetch", class+"/shown@"+o.trigger(), fmt.Sprintf("stream list with prefetched tags shows tag %s on stream %d = %v, definition %q evaluates to %v", t.Name, sl.ID, has, t.Definition, G[uint(sl.ID)])) {
					return
				}
				break
			}
		}
		o.s.res.Count("c06_prefetch_checks", 1)
	}
	// the same for one result page (a proper subset of the streams): pending
	// tags are then evaluated for the hits only, but their definitions (sub-
	// queries in particular) still range over all streams
	if n := int(o.state.NextStreamID); n >= 2 {
		k := o.s.stepNo % n
		page := []string{fmt.Sprintf("id:%d sort:id", k), fmt.Sprintf("id:%d: sort:id", (n+1)/2)}[o.s.stepNo%2]
		pp := o.s.probe(Op{K: "FreshViewPrefetchPage", Def: page})
		if pp.View == nil || pp.View.Err != "" {
			if pp.View != nil && !(strings.Contains(pp.View.Err, "not found") || strings.Contains(pp.View.Err, "same converter name")) {
				o.violate("view-prefetch", "page-error", "result page with prefetched tags failed: "+pp.View.Err)
			}
			return
		}
		for _, t := range o.state.Tags {
			g, ok := r.G[t.Name]
			if !ok || o.flagged[t.Name] || r.GErr[t.Name] != "" && r.GErr[t.Name] != "impossible" {
				continue
			}
			G := setOf(g)
			class := o.rootClass(t.Name, r.GErr)
			for _, sl := range pp.View.Streams {
				has := false
				for _, tn := range sl.Tags {
					if tn == t.Name {
						has = true
					}
				}
				if has != G[uint(sl.ID)] {
					if o.violate("view-prefetch", class+"/shown-on-page@"+o.trigger(), fmt.Sprintf("result page %q with prefetched tags shows tag %s on stream %d = %v, definition %q evaluates to %v", page, t.Name, sl.ID, has, t.Definition, G[uint(sl.ID)])) {
						return
					}
					break
				}
			}
			o.s.res.Count("c06_prefetch_page_checks", 1)
		}
	}
}

// defClass groups definitions for violation signatures.
func defClass(def string) string {
	switch {
	case strings.Contains(def, "@"):
		return "subquery"
	case convReading(def):
		return "converter-data"
	case len(defRefs(def)) > 0:
		return "tag-ref"
	case strings.Contains(def, "data"):
		return "data"
	case strings.HasPrefix(def, "id:") && !strings.ContainsAny(def, " ("):
		return "id-only"
	case strings.Contains(def, "id:"):
		return "id-mixed"
	default:
		return "meta"
	}
}

// ---- placeholders filled in views.go / graph.go ------------------------------

func listDir(dir, suffix string) []string {
	ents, _ := os.ReadDir(dir)
	var out []string
	for _, e := range ents {
		if strings.HasSuffix(e.Name(), suffix) {
			out = append(out, e.Name())
		}
	}
	sort.Strings(out)
	return out
}

var _ = filepath.Join
