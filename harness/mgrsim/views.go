package mgrsim

import (
	"fmt"
	"os"
	"path/filepath"
	"sort"
	"strings"

	"github.com/spq/pkappa2/verif/oracle"
	"github.com/spq/pkappa2/verif/sim"
	"github.com/spq/pkappa2/verif/simrt"
)

// ---- reference import (DESIGN §3.2) -----------------------------------------------

// reference returns the visible streams of a one-shot import of files.
func (o *oracles) reference(files []string) ([]*oracle.StreamSig, error) {
	fs := append([]string(nil), files...)
	sort.Strings(fs)
	key := strings.Join(fs, ",")
	if r, ok := o.refCache[key]; ok {
		return r, nil
	}
	sv := simrt.Save()
	defer simrt.Restore(sv)
	base := filepath.Join(o.s.scratch, "ref-"+sim.Hash(key))
	d, err := oracle.MakeDirs(base)
	if err != nil {
		return nil, err
	}
	defer os.RemoveAll(base)
	// the importer is created on an empty capture directory (builder.New
	// registers every capture it finds as already known); then the files
	// arrive and are imported in one shot
	im2, err := oracle.NewImporter(d)
	if err != nil {
		return nil, err
	}
	defer im2.Close()
	for _, f := range fs {
		if err := copyFile(filepath.Join(o.s.scratch, "src", f), filepath.Join(d.Pcap, f), 0o644); err != nil {
			return nil, err
		}
	}
	if len(fs) > 0 {
		if _, err := im2.Import(fs); err != nil {
			return nil, err
		}
	}
	vis, err := oracle.Visible(im2.Readers)
	if err != nil {
		return nil, err
	}
	o.refCache[key] = vis
	return vis, nil
}

func (o *oracles) checkComplete(v *ViewSig, processed []string, what string) {
	if o.completeOff {
		o.s.res.Count("c10_complete_off_after_restart_with_imports_in_flight", 1)
		return
	}
	ref, err := o.reference(processed)
	if err != nil {
		o.s.res.Infra = "reference import failed: " + err.Error()
		return
	}
	want := map[string]int{}
	for _, s := range ref {
		want[s.ContentKey()]++
	}
	seenID := map[uint64]bool{}
	for _, sl := range v.Streams {
		if seenID[sl.ID] {
			if o.violate("complete", "duplicate-id", fmt.Sprintf("%s: stream id %d listed twice", what, sl.ID)) {
				return
			}
		}
		seenID[sl.ID] = true
		if want[sl.Key] == 0 {
			if o.violate("complete", "wrong-version", fmt.Sprintf("%s: stream %d (%s, %d bytes, %d packets) is not what a one-shot import of %v contains (stale or foreign version)", what, sl.ID, sl.Tuple, sl.Bytes, sl.Packets, processed)) {
				return
			}
		}
		want[sl.Key]--
	}
	for _, s := range ref {
		if want[s.ContentKey()] > 0 {
			if o.violate("complete", "missing-stream", fmt.Sprintf("%s: a stream of the processed captures %v is missing: %s %s:%d->%s:%d (%d+%d bytes)", what, processed, s.Proto, s.ClientIP, s.ClientPort, s.ServerIP, s.ServerPort, len(s.Data[0]), len(s.Data[1]))) {
				return
			}
		}
	}
	// searches through the view: no stream twice, no stream the view does not
	// list, and a search without a filter lists every stream of the view
	ids := map[uint64]bool{}
	for _, sl := range v.Streams {
		ids[sl.ID] = true
	}
	for _, q := range sortedKeys(v.Search) {
		res := v.Search[q]
		seen := map[uint64]bool{}
		for _, id := range res {
			if seen[id] {
				if o.violate("complete", "search-duplicate", fmt.Sprintf("%s: search %q lists stream %d twice: %v", what, q, id, res)) {
					return
				}
			}
			seen[id] = true
			if !ids[id] {
				if o.violate("complete", "search-foreign", fmt.Sprintf("%s: search %q lists stream %d, which the view's stream list does not contain", what, q, id)) {
					return
				}
			}
		}
		if (q == "sort:ftime" || q == "sort:id" || q == "PAGED:sort:sport" || q == "PAGED:sort:-cbytes limit:3") && len(seen) != len(ids) {
			if o.violate("complete", "search-incomplete", fmt.Sprintf("%s: search %q lists %d streams, the view has %d", what, q, len(seen), len(ids))) {
				return
			}
		}
	}
	o.s.res.Count("c10_complete_checks", 1)
}

// ---- C10 ------------------------------------------------------------------------------

func (o *oracles) viewOpened(op Op, r OpResult) {
	v := r.View
	if v == nil {
		return
	}
	hv := &heldView{first: v, hash: v.Hash(), openStep: o.s.stepNo}
	if o.state != nil {
		hv.known = append([]string(nil), o.processed()...)
	}
	o.held[op.V] = hv
	if len(o.s.jobs) > 0 {
		o.s.res.Count("probe_view_opened_during_jobs", 1)
		o.s.res.NonTriv = true
	}
	if !o.on("C10", "C05", "C07", "C08", "C12") {
		if v.Err != "" && o.on("C13") {
			o.violate("view-read", "read-failed", "opening a view failed: "+v.Err)
		}
		return
	}
	if v.Err != "" {
		if o.violate("view", "view-error", "opening a view failed: "+v.Err) {
			return
		}
	}
	o.checkComplete(v, hv.known, fmt.Sprintf("view %d opened at step %d", op.V, o.s.stepNo))
}

func (o *oracles) viewRead(op Op, r OpResult) {
	hv := o.held[op.V]
	v := r.View
	if hv == nil || v == nil {
		return
	}
	if !o.on("C10", "C05", "C07", "C08") {
		return
	}
	if v.Err != "" {
		if o.violate("view", "view-error", fmt.Sprintf("reading view %d (opened at step %d) failed: %s", op.V, hv.openStep, v.Err)) {
			return
		}
	}
	if h := v.Hash(); h != hv.hash {
		kind := diffKind(hv.first, v)
		if kind == "search" && len(o.s.plan.Converters) > 0 {
			// which query? a payload search that is not restricted to the raw payload
			// also looks at cached converter output, and that cache belongs to the
			// service, not to the view
			onlyConv := true
			for _, q := range sortedKeys(hv.first.Search) {
				if fmt.Sprint(hv.first.Search[q]) != fmt.Sprint(v.Search[q]) && !(strings.Contains(q, "data:") || strings.Contains(q, "data.")) || strings.Contains(q, "data.none") && fmt.Sprint(hv.first.Search[q]) != fmt.Sprint(v.Search[q]) {
					onlyConv = false
				}
			}
			if onlyConv {
				kind = "search/converter-output"
			}
		}
		if o.violate("stable", "unstable:"+kind, fmt.Sprintf("view %d opened at step %d answers differently now: %s", op.V, hv.openStep, diffViews(hv.first, v))) {
			return
		}
	}
	o.s.res.Count("c10_stable_checks", 1)
	if len(o.s.steps) > 0 {
		o.s.res.NonTriv = true
	}
}

func diffKind(a, b *ViewSig) string {
	if fmt.Sprint(a.Indexes) != fmt.Sprint(b.Indexes) {
		return "indexes"
	}
	if len(a.Streams) != len(b.Streams) {
		return "streams"
	}
	for i := range a.Streams {
		if a.Streams[i].ID != b.Streams[i].ID || a.Streams[i].Key != b.Streams[i].Key {
			return "streams"
		}
		if fmt.Sprint(a.Streams[i].Tags) != fmt.Sprint(b.Streams[i].Tags) {
			return "tags"
		}
	}
	return "search"
}

func diffViews(a, b *ViewSig) string {
	if fmt.Sprint(a.Indexes) != fmt.Sprint(b.Indexes) {
		return fmt.Sprintf("index list %v -> %v", a.Indexes, b.Indexes)
	}
	if len(a.Streams) != len(b.Streams) {
		return fmt.Sprintf("%d streams -> %d streams", len(a.Streams), len(b.Streams))
	}
	for i := range a.Streams {
		x, y := a.Streams[i], b.Streams[i]
		if x.ID != y.ID || x.Key != y.Key {
			return fmt.Sprintf("stream %d (%s) -> stream %d (%s)", x.ID, x.Key, y.ID, y.Key)
		}
		if fmt.Sprint(x.Tags) != fmt.Sprint(y.Tags) {
			return fmt.Sprintf("stream %d tags %v -> %v", x.ID, x.Tags, y.Tags)
		}
	}
	for _, q := range sortedKeys(a.Search) {
		if fmt.Sprint(a.Search[q]) != fmt.Sprint(b.Search[q]) {
			return fmt.Sprintf("search %q %v -> %v", q, a.Search[q], b.Search[q])
		}
	}
	for _, q := range sortedKeys(a.SErr) {
		if a.SErr[q] != b.SErr[q] {
			return fmt.Sprintf("search %q error %q -> %q", q, a.SErr[q], b.SErr[q])
		}
	}
	return "?"
}

// processed: the captures whose import completion the loop has applied.
func (o *oracles) processed() []string {
	if o.state == nil {
		return nil
	}
	known := o.state.KnownPcaps
	// an import whose body has run but whose completion is still parked has
	// already registered its captures with the builder
	for _, j := range o.s.jobs {
		if j.kind == simrt.KindImport && j.state == jPost {
			return o.lastProcessed
		}
	}
	o.lastProcessed = append([]string(nil), known...)
	return o.lastProcessed
}

// ---- C07 ---------------------------------------------------------------------------------

func (o *oracles) compareMerge(pre, post *ViewSig) {
	if pre.Err != "" || post.Err != "" {
		if o.violate("merge", "view-error", fmt.Sprintf("view around merge failed: %q / %q", pre.Err, post.Err)) {
			return
		}
	}
	if len(pre.Streams) != len(post.Streams) {
		if o.violate("merge", "stream-set", fmt.Sprintf("merge changed the number of visible streams %d -> %d (files %v -> %v)", len(pre.Streams), len(post.Streams), pre.Indexes, post.Indexes)) {
			return
		}
	}
	for i := range pre.Streams {
		x, y := pre.Streams[i], post.Streams[i]
		if x.ID != y.ID {
			if o.violate("merge", "stream-set", fmt.Sprintf("merge changed visible ids: %d -> %d", x.ID, y.ID)) {
				return
			}
		}
		if x.Key != y.Key {
			if o.violate("merge", "stream-content", fmt.Sprintf("merge changed stream %d (%s): content/metadata/packet references differ (files %v -> %v)", x.ID, x.Tuple, pre.Indexes, post.Indexes)) {
				return
			}
		}
		if fmt.Sprint(x.Tags) != fmt.Sprint(y.Tags) {
			if o.violate("merge", "tags", fmt.Sprintf("merge changed tags of stream %d: %v -> %v", x.ID, x.Tags, y.Tags)) {
				return
			}
		}
	}
	for _, q := range sortedKeys(pre.Search) {
		if fmt.Sprint(pre.Search[q]) != fmt.Sprint(post.Search[q]) {
			if o.violate("merge", "search", fmt.Sprintf("merge changed result of %q: %v -> %v (files %v -> %v)", q, pre.Search[q], post.Search[q], pre.Indexes, post.Indexes)) {
				return
			}
		}
	}
	for _, q := range sortedKeys(pre.SErr) {
		if pre.SErr[q] != post.SErr[q] {
			if o.violate("merge", "search", fmt.Sprintf("merge changed error of %q: %q -> %q", q, pre.SErr[q], post.SErr[q])) {
				return
			}
		}
	}
	o.s.res.Count("c07_merge_checks", 1)
	o.s.res.NonTriv = true
}

// ---- C13 ---------------------------------------------------------------------------------

func (o *oracles) quietCall(c int, op Op) OpResult {
	sv := simrt.Save()
	r := o.s.call(c, op)
	o.s.settle()
	simrt.Restore(sv)
	return r
}

func (o *oracles) checkRefcounts(final bool) {
	st := o.state
	dir := listDir(o.s.dirs.Index, ".idx")
	onDisk := map[string]bool{}
	for _, f := range dir {
		onDisk[f] = true
	}
	served := map[string]bool{}
	for _, f := range st.Indexes {
		served[f] = true
		if !onDisk[f] {
			if o.violate("refcount", "served-file-missing", fmt.Sprintf("served index file %s is not on disk", f)) {
				return
			}
		}
	}
	viewCount := map[string]uint{}
	for _, vn := range sortedIntKeys(o.held) {
		hv := o.held[vn]
		for _, f := range hv.first.Indexes {
			viewCount[f]++
			if !onDisk[f] {
				if o.violate("refcount", "view-file-deleted", fmt.Sprintf("index file %s of view %d (opened at step %d) was deleted while the view is open", f, vn, hv.openStep)) {
					return
				}
			}
		}
	}
	jobHolds := false // a job may hold or have created files the harness cannot see
	for _, j := range o.s.jobs {
		jobHolds = true
		// a job works on the index files that were served when it was started
		// (every job takes its copy of the list with a lock on each file): they
		// must stay on disk until its completion has been applied
		if !j.filesSet {
			j.filesSet = true
			j.files = append([]string(nil), st.Indexes...)
			continue
		}
		for _, f := range j.files {
			if !onDisk[f] {
				if o.violate("refcount", "job-file-deleted", fmt.Sprintf("index file %s was served when job %s was started (step %d) and was deleted while the job is still in flight", f, j.name(), j.spawnStep)) {
					return
				}
			}
		}
	}
	for f := range onDisk {
		want := viewCount[f]
		if served[f] {
			want++
		}
		if st.Used[f] < want {
			if o.violate("refcount", "undercount", fmt.Sprintf("index file %s: use count %d < %d holders (served=%v, open views=%d)", f, st.Used[f], want, served[f], viewCount[f])) {
				return
			}
		}
		if !jobHolds && st.Used[f] != want {
			if o.violate("refcount", "leak", fmt.Sprintf("index file %s: no job exists, use count %d but %d holders (served=%v, open views=%d)", f, st.Used[f], want, served[f], viewCount[f])) {
				return
			}
		}
		if !jobHolds && !served[f] && viewCount[f] == 0 {
			if o.violate("refcount", "garbage-file", fmt.Sprintf("index file %s is neither served nor held by a view and no job is running, but it still exists", f)) {
				return
			}
		}
	}
	for f, n := range st.Used {
		if !onDisk[f] && n > 0 {
			if o.violate("refcount", "counted-file-missing", fmt.Sprintf("index file %s has use count %d but is not on disk", f, n)) {
				return
			}
		}
	}
	// every read through every held view must still succeed and be identical
	for _, vn := range sortedIntKeys(o.held) {
		hv := o.held[vn]
		r := o.quietCall(CView, Op{K: "ReadView", V: vn})
		if r.View == nil || r.View.Err != "" {
			msg := "no result"
			if r.View != nil {
				msg = r.View.Err
			}
			if o.violate("view-read", "read-failed", fmt.Sprintf("reading view %d (opened at step %d, files %v) failed: %s", vn, hv.openStep, hv.first.Indexes, msg)) {
				return
			}
		}
		if len(r.View.Streams) != len(hv.first.Streams) {
			if o.violate("view-read", "read-differs", fmt.Sprintf("view %d returns %d streams, %d when opened", vn, len(r.View.Streams), len(hv.first.Streams))) {
				return
			}
		}
		for i := range r.View.Streams {
			if r.View.Streams[i].Key != hv.first.Streams[i].Key {
				if o.violate("view-read", "read-differs", fmt.Sprintf("view %d: stream %d reads differently than when the view was opened", vn, r.View.Streams[i].ID)) {
					return
				}
			}
		}
		o.s.res.Count("c13_view_rereads", 1)
	}
	o.s.res.Count("c13_checks", 1)
	if !final {
		return
	}
	if jobHolds {
		return
	}
	locks := uint(0)
	for _, n := range st.Used {
		locks += n
	}
	total := uint(len(st.Indexes))
	for _, n := range viewCount {
		total += n
	}
	if o.status != nil && (o.status.IndexLockCount != locks || locks != total) {
		if o.violate("refcount", "lockcount", fmt.Sprintf("at quiescence IndexLockCount=%d, sum of use counts=%d, holders=%d (served %d + view files)", o.status.IndexLockCount, locks, total, len(st.Indexes))) {
			return
		}
	}
	// release everything: the directory must shrink to the served files
	for _, vn := range sortedIntKeys(o.held) {
		o.quietCall(CView, Op{K: "ReleaseView", V: vn})
		delete(o.held, vn)
	}
	o.refreshState()
	st = o.state
	dir = listDir(o.s.dirs.Index, ".idx")
	if fmt.Sprint(sortedCopy(st.Indexes)) != fmt.Sprint(dir) {
		if o.violate("refcount", "dir-not-served", fmt.Sprintf("after releasing all views the index directory holds %v, the service serves %v", dir, sortedCopy(st.Indexes))) {
			return
		}
	}
	if o.status != nil && int(o.status.IndexLockCount) != o.status.IndexCount {
		if o.violate("refcount", "lockcount", fmt.Sprintf("after releasing all views IndexLockCount=%d IndexCount=%d", o.status.IndexLockCount, o.status.IndexCount)) {
			return
		}
	}
	o.s.res.Count("c13_quiescent_checks", 1)
}

func sortedCopy(l []string) []string {
	c := append([]string(nil), l...)
	sort.Strings(c)
	return c
}

func sortedIntKeys[V any](m map[int]V) []int {
	ks := make([]int, 0, len(m))
	for k := range m {
		ks = append(ks, k)
	}
	sort.Ints(ks)
	return ks
}

// ---- C16 -----------------------------------------------------------------------------------

func (o *oracles) checkConverters(final bool) {
	if len(o.s.plan.Converters) == 0 {
		return
	}
	r := o.s.probe(Op{K: "FreshView", Convs: o.s.plan.Converters})
	v := r.View
	if v == nil || v.Err != "" {
		return
	}
	digest := map[uint64]string{}
	bytesOf := map[uint64]int{}
	for _, sl := range v.Streams {
		digest[sl.ID] = sl.Digest
		bytesOf[sl.ID] = sl.Bytes
	}
	for _, cn := range o.s.plan.Converters {
		for id := range v.Conv[cn] {
			o.everCached[fmt.Sprintf("%s/%d", cn, id)] = true
		}
		convIDs := make([]uint64, 0, len(v.Conv[cn]))
		for id := range v.Conv[cn] {
			convIDs = append(convIDs, id)
		}
		sort.Slice(convIDs, func(i, j int) bool { return convIDs[i] < convIDs[j] })
		for _, id := range convIDs {
			d := v.Conv[cn][id]
			if d == "empty" && bytesOf[id] == 0 {
				continue
			}
			o.s.res.Count("c16_output_checks", 1)
			if d != digest[id] {
				// a stale entry stays stale: attribute it to the step (and cause) at which it was first seen
				key := fmt.Sprintf("conv/%s/%d/%s", cn, id, d)
				sig, seen := o.firstSeen[key]
				if !seen {
					trig := o.trigger()
					if o.convJobActive && (trig == "api:ConvCreate" || trig == "api:ConvWrite") {
						// a converter that comes back while a job that still holds its former
						// self is running loads what that job has stored so far: the same
						// output "of a job, not yet judged by its completion" as @body:convert
						trig = "body:convert"
					}
					sig = "stale-output@" + trig + o.onDemandNote
					o.firstSeen[key] = sig
				}
				if o.violate("convert", sig, fmt.Sprintf("converter %s: cached output of stream %d was made for payload %s, the stream's current payload is %s", cn, id, d, digest[id])) {
					return
				}
			}
		}
	}
	if !final || len(o.s.jobs) != 0 {
		return
	}
	for _, t := range o.state.Tags {
		U := setOf(t.Uncertain)
		for _, cn := range t.Converters {
			for _, s := range t.Matches {
				if U[s] {
					continue
				}
				if _, ok := digest[uint64(s)]; !ok {
					continue // mark on a stream that does not exist
				}
				if _, ok := v.Conv[cn][uint64(s)]; !ok {
					if o.violate("convert", "missing-output", fmt.Sprintf("at quiescence stream %d matches tag %s with converter %s attached but has no converter output", s, t.Name, cn)) {
						return
					}
				}
				o.s.res.Count("c16_presence_checks", 1)
			}
		}
	}
}

func (o *oracles) beforeRestart() {
	// A capture that was uploaded but whose import had not completed when the
	// service went down is registered as known by the next start (builder.New
	// takes every file of the capture directory as imported) although it was
	// never indexed (DESIGN §8.4); an import whose index file was complete but
	// unannounced becomes visible. C10 speaks of captures *reported processed*;
	// after such a restart the harness can no longer tell them from the list
	// of known captures, so the completeness comparison ends for this run
	// (stability of views is still checked).
	if o.state != nil && len(o.state.ImportJobs) > 0 {
		o.completeOff = true
	}
	for _, j := range o.s.jobs {
		if j.kind == simrt.KindImport {
			o.completeOff = true
		}
	}
	if o.on("C12") && !o.s.plan.NoOracle {
		o.preRestart = o.crashModel()
		o.importWasInFlight = false
		for _, j := range o.s.jobs {
			if (j.kind == simrt.KindImport || j.kind == simrt.KindMerge) && j.state == jPost {
				// its output files are complete on disk but were never announced
				o.importWasInFlight = true
			}
		}
	}
}

func (o *oracles) afterRestart() {
	o.held = map[int]*heldView{}
	if o.s.plan.NoOracle {
		return
	}
	o.refreshState()
	o.processed()
	if o.s.crash != nil {
		o.s.crash.models = append(o.s.crash.models, o.crashModel())
	}
	if o.durabilityUnknown {
		o.preRestart = nil
	}
	if o.on("C12") && o.preRestart != nil {
		vr := o.s.probe(Op{K: "FreshView", On: true})
		if vr.View != nil {
			o.cleanRestartImportInFlight = o.importWasInFlight
			o.compareRestart(o.state, vr.View, nil, o.preRestart, o.preRestart, "clean Close and restart", false)
			o.cleanRestartImportInFlight = false
		}
		o.preRestart = nil
	}
}

var _ = os.Remove

// missingNote qualifies a missing output at quiescence.
func (o *oracles) missingNote(conv string, stream uint64) string {
	return ""
}
