package mgrsim

import (
	"fmt"
	"io/fs"
	"os"
	"path/filepath"
	"sort"
	"strings"

	"github.com/spq/pkappa2/internal/index/manager"
	"github.com/spq/pkappa2/verif/sim"
	"github.com/spq/pkappa2/verif/simrt"
)

// ---- C12: crash snapshots (DESIGN §2.4) -----------------------------------------

type crashSnap struct {
	dir    string
	step   int // number of completed steps when the snapshot was taken (the step in flight is step+1)
	site   string
	io     uint64
	torn   string // file whose tail was cut ("" = none)
	ack    bool   // taken after an acknowledged call: only the state after the step is acceptable
	before *modelAt
	after  *modelAt
}

// modelAt is what the harness knows at a step boundary.
type modelAt struct {
	state     *manager.VerifState
	view      *ViewSig
	processed []string
}

type crasher struct {
	s        *Sim
	lastSig  string
	snaps    []*crashSnap
	seen     map[string]bool
	nChanged int
	models   []*modelAt // models[i] = model after i completed steps
	disabled bool
	sizes    map[string]int64 // file sizes at the previous I/O point
}

var dataSubdirs = []string{"state", "index", "snapshot", "pcap", "converter"}

func treeSig(base string, content bool) string {
	var parts []string
	for _, sub := range dataSubdirs {
		filepath.WalkDir(filepath.Join(base, sub), func(p string, d fs.DirEntry, err error) error {
			if err != nil || d.IsDir() {
				return nil
			}
			if sub == "converter" || sub == "pcap" && !content {
				// converter binaries never change; pcaps only appear
				parts = append(parts, p)
				return nil
			}
			fi, err := d.Info()
			if err != nil {
				return nil
			}
			if content {
				b, _ := os.ReadFile(p)
				rel, _ := filepath.Rel(base, p)
				parts = append(parts, rel+":"+sim.Hash(string(b)))
			} else {
				parts = append(parts, fmt.Sprintf("%s:%d:%d", p, fi.Size(), fi.ModTime().UnixNano()))
			}
			return nil
		})
	}
	return sim.Hash(strings.Join(parts, "|"))
}

func copyTree(src, dst string) error {
	return filepath.WalkDir(src, func(p string, d fs.DirEntry, err error) error {
		if err != nil {
			return nil
		}
		rel, _ := filepath.Rel(src, p)
		if d.IsDir() {
			return os.MkdirAll(filepath.Join(dst, rel), 0o755)
		}
		b, err := os.ReadFile(p)
		if err != nil {
			return nil // removed meanwhile: that is the crash state
		}
		fi, _ := d.Info()
		mode := os.FileMode(0o644)
		if fi != nil {
			mode = fi.Mode().Perm()
		}
		return os.WriteFile(filepath.Join(dst, rel), b, mode)
	})
}

func newCrasher(s *Sim) *crasher {
	c := &crasher{s: s, seen: map[string]bool{}}
	return c
}

// ioHook runs inside whatever goroutine reached the I/O point; the point is
// an instant at which the process may be killed.
func (c *crasher) ioHook(site string, n uint64) {
	if c.disabled || len(c.snaps) >= c.s.plan.CrashMax {
		return
	}
	simrt.WithoutFsizeLimit(func() { c.ioHook1(site, n) })
}

func (c *crasher) ioHook1(site string, n uint64) {
	sig := treeSig(c.s.dirs.Base, false)
	if sig == c.lastSig {
		return
	}
	c.lastSig = sig
	c.nChanged++
	// which file was appended to since the previous I/O point?
	grown, from, to := "", int64(0), int64(0)
	cur := map[string]int64{}
	for _, sub := range []string{"state", "index", "snapshot"} {
		ents, _ := os.ReadDir(filepath.Join(c.s.dirs.Base, sub))
		for _, e := range ents {
			if fi, err := e.Info(); err == nil && !fi.IsDir() {
				rel := filepath.Join(sub, e.Name())
				cur[rel] = fi.Size()
				if old, ok := c.sizes[rel]; c.sizes != nil && fi.Size() > old+1 && (ok || true) {
					grown, from, to = rel, old, fi.Size()
				}
			}
		}
	}
	c.sizes = cur
	if every := c.s.plan.CrashEvery; every > 1 && c.nChanged%every != 0 {
		return
	}
	c.take(site, n, grown, from, to)
}

func (c *crasher) take(site string, n uint64, grown string, from, to int64) {
	dir := filepath.Join(c.s.scratch, "crash", fmt.Sprintf("%04d", len(c.snaps)))
	if err := copyTree(c.s.dirs.Base, dir); err != nil {
		return
	}
	full := treeSig(dir, true)
	if c.seen[full] {
		os.RemoveAll(dir)
		c.s.res.Count("crash_states_duplicate", 1)
		return
	}
	c.seen[full] = true
	sn := &crashSnap{dir: dir, step: c.s.stepNo, site: site, io: n}
	// the step in flight has already been recorded when its body runs
	if c.s.inStep {
		sn.step = c.s.stepNo - 1
	}
	c.snaps = append(c.snaps, sn)
	c.s.res.Count("fault_kill_snapshot", 1)
	// torn tail: the write that completed since the previous I/O point is cut
	// short (the tree is otherwise exactly the tree at this point)
	if grown != "" && to-from >= 2 && len(c.snaps) < c.s.plan.CrashMax && n%2 == 0 {
		tdir := filepath.Join(c.s.scratch, "crash", fmt.Sprintf("%04dt", len(c.snaps)))
		if copyTree(dir, tdir) == nil {
			cut := from + 1 + int64(n%uint64(to-from-1))
			os.Truncate(filepath.Join(tdir, grown), cut)
			step := sn.step
			c.snaps = append(c.snaps, &crashSnap{dir: tdir, step: step, site: site, io: n, torn: fmt.Sprintf("%s at %d of %d..%d", grown, cut, from, to)})
			c.s.res.Count("fault_torn_tail", 1)
		}
	}
}

// newestFile: the most recently modified file under state/index/snapshot.
func newestFile(base string) string {
	best, bestT := "", int64(0)
	for _, sub := range []string{"state", "index", "snapshot"} {
		ents, _ := os.ReadDir(filepath.Join(base, sub))
		for _, e := range ents {
			fi, err := e.Info()
			if err != nil || fi.IsDir() {
				continue
			}
			if t := fi.ModTime().UnixNano(); t >= bestT {
				best, bestT = filepath.Join(base, sub, e.Name()), t
			}
		}
	}
	return best
}

func (o *oracles) crashModel() *modelAt {
	m := &modelAt{state: o.state, processed: append([]string(nil), o.lastProcessed...)}
	r := o.s.probe(Op{K: "FreshView"})
	m.view = r.View
	return m
}

// restartAll restarts every crash state after the main run has been closed.
func (c *crasher) restartAll() {
	c.disabled = true
	o := c.s.or
	for si, sn := range c.snaps {
		if c.s.res.Viol != nil || c.s.res.Infra != "" {
			break
		}
		if sn.step < len(c.models) {
			sn.before = c.models[sn.step]
		}
		if sn.step+1 < len(c.models) {
			sn.after = c.models[sn.step+1]
		} else {
			sn.after = sn.before
		}
		if sn.ack {
			sn.before = sn.after
		}
		if sn.before == nil {
			continue
		}
		what := fmt.Sprintf("kill at I/O point %d (%s) during step %d", sn.io, sn.site, sn.step+1)
		if sn.torn != "" {
			what += ", write of " + sn.torn + " cut short"
		}
		o.restartAndCheckN(sn.dir, sn.before, sn.after, what, si%3 == 0)
		sim.ReapChildren() // converter children of the closed instance
		c.s.res.Count("crash_states_restarted", 1)
		os.RemoveAll(sn.dir)
	}
}

// restartAndCheck starts a manager on dir, drains it and compares it with
// what was acknowledged (before) allowing the operation in flight (after).
func (o *oracles) restartAndCheck(dir string, before, after *modelAt, what string) {
	o.restartAndCheckN(dir, before, after, what, false)
}

// restartAndCheckN: with nest, the restart itself is killed again — the data
// directory is copied at up to three I/O points of manager.New and of the
// jobs the restarted service runs (state re-save, start-up merge, cache
// compaction, tagging) at which it changed; each copy is restarted and
// compared with the same model (nothing was acknowledged in between).
func (o *oracles) restartAndCheckN(dir string, before, after *modelAt, what string, nest bool) {
	s := o.s
	o.inRestart = true
	defer func() { o.inRestart = false }()
	type nsnap struct{ dir, site string }
	var nested []nsnap
	if nest {
		lastSig := treeSig(dir, false)
		simrt.SetIOHook(func(site string, n uint64) {
			if len(nested) >= 3 {
				return
			}
			sig := treeSig(dir, false)
			if sig == lastSig {
				return
			}
			lastSig = sig
			nd := fmt.Sprintf("%s-n%d", dir, len(nested))
			if copyTree(dir, nd) == nil {
				nested = append(nested, nsnap{nd, site})
				s.res.Count("fault_kill_during_restart", 1)
			}
		})
		simrt.ArmIO(true)
		defer func() {
			simrt.ArmIO(false)
			if s.crash != nil {
				simrt.SetIOHook(s.crash.ioHook)
			}
			for _, ns := range nested {
				if s.res.Viol == nil && s.res.Infra == "" {
					o.restartAndCheckN(ns.dir, before, after, what+", restarted and killed again at "+ns.site, false)
				}
				os.RemoveAll(ns.dir)
			}
		}()
	}
	if r := s.call(CBarrier, Op{K: "New", Name: dir}); r.Err != "" {
		o.violate("restart", "restart-failed", what+": manager.New failed: "+r.Err)
		return
	}
	s.alive = true
	s.settle()
	// drain
	for n := 0; n < 400; n++ {
		en := s.enabled()
		if len(en) == 0 {
			break
		}
		var st stepRef
		found := false
		for _, e := range en {
			if e.kind != "api" {
				st, found = e, true
				break
			}
		}
		if !found {
			break
		}
		s.execQuiet(st)
	}
	if nest {
		simrt.ArmIO(false)
	}
	sv := simrt.Save()
	r := s.call(CBarrier, Op{K: "State"})
	vr := s.call(CBarrier, Op{K: "FreshView", On: true})
	rc := s.call(CBarrier, Op{K: "Recompute"})
	simrt.Restore(sv)
	s.call(CBarrier, Op{K: "Close"})
	s.alive = false
	s.killJobs()
	if r.State == nil || vr.View == nil {
		s.res.Infra = "restart probe failed"
		return
	}
	o.compareRestart(r.State, vr.View, rc.G, before, after, what, true)
	if s.res.Viol != nil || !o.furtherHistory {
		return
	}
	var processed []string
	if after != nil {
		processed = after.processed
	}
	o.secondLife(dir, r.State, vr.View, what, processed)
}

// secondLife: "followed by any further history" — after the crash restart
// settled, a few more acknowledged operations (a new tag, on-demand
// conversions that append to the converter cache), then a clean restart on
// the same directory; everything acknowledged in either life must be there.
func (o *oracles) secondLife(dir string, st1 *manager.VerifState, v1 *ViewSig, what string, processed []string) {
	s := o.s
	what += ", then further operations and a second restart"
	if r := s.call(CBarrier, Op{K: "New", Name: dir}); r.Err != "" {
		o.violate("restart", "second-restart-failed", what+": manager.New failed: "+r.Err)
		return
	}
	s.alive = true
	s.settle()
	drain := func() {
		for n := 0; n < 400; n++ {
			var st stepRef
			found := false
			for _, e := range s.enabled() {
				if e.kind != "api" {
					st, found = e, true
					break
				}
			}
			if !found {
				return
			}
			s.execQuiet(st)
		}
	}
	drain()
	sv := simrt.Save()
	defer simrt.Restore(sv)
	addErr := s.call(CMut, Op{K: "AddTag", Name: "tag/z2", Color: "#0f0f0f", Def: "cbytes:1:"}).Err
	s.settle()
	// further imports: the captures of the plan that the service had not been
	// given when it went down arrive now. Only when every capture file that is
	// in the capture directory had been processed (an upload whose import was
	// cut off is listed as known by the next start without ever being indexed,
	// DESIGN §8.4) — then the result must be that of a one-shot import of all.
	o.secondLives++
	furtherImported := false
	// (not in a run in which the service was restarted while an import was queued
	// or running: the next start lists that capture as known without indexing it,
	// DESIGN §8.4, and the harness can no longer tell which captures were processed)
	if o.secondLives%2 == 0 && !o.completeOff {
		d := dirsAt(dir)
		done := map[string]bool{}
		for _, f := range processed {
			done[f] = true
		}
		present := map[string]bool{}
		clean := true
		if ents, err := os.ReadDir(d.Pcap); err == nil {
			for _, e := range ents {
				present[e.Name()] = true
				if !done[e.Name()] {
					clean = false
				}
			}
		}
		var rest []string
		for _, n := range s.capt.Names {
			if !present[n] {
				rest = append(rest, n)
			}
		}
		if clean && len(rest) > 0 {
			for _, n := range rest {
				copyFile(filepath.Join(s.scratch, "src", n), d.Pcap+n, 0o644)
			}
			s.call(CImp, Op{K: "Import", Convs: rest})
			s.settle()
			drain()
			fv := s.call(CBarrier, Op{K: "FreshView"})
			if fv.View != nil && fv.View.Err == "" {
				all := append(append([]string(nil), processed...), rest...)
				off := o.completeOff
				o.completeOff = false
				o.checkComplete(fv.View, all, what+", then the remaining captures "+fmt.Sprint(rest)+" were imported")
				o.completeOff = off
				if s.res.Viol != nil {
					s.call(CView, Op{K: "DropViews"})
					s.call(CBarrier, Op{K: "Close"})
					s.alive = false
					s.killJobs()
					return
				}
				v1 = fv.View
				furtherImported = true
				s.res.Count("crash_second_life_further_imports", 1)
			}
		}
	}
	_ = furtherImported
	converted := map[string]string{} // conv/stream -> payload digest
	if len(s.plan.Converters) > 0 {
		s.call(CView, Op{K: "OpenView", V: 900})
		n := 0
		for _, sl := range v1.Streams {
			if sl.Bytes == 0 || n >= 3 {
				continue
			}
			conv := s.plan.Converters[n%len(s.plan.Converters)]
			ran := len(o.vconvLog())
			r := s.call(CView, Op{K: "StreamData", V: 900, Stream: sl.ID, Conv: conv})
			s.settle()
			if len(o.vconvLog()) == ran {
				// answered from the cache: nothing was stored now (output cached before
				// the kill for an older version of a stream whose extension became visible
				// without its import ever completing is not invalidated by anything; no
				// listed property speaks about converter output across a kill, DESIGN §8.4)
				continue
			}
			if r.Err == "" && r.Found {
				converted[fmt.Sprintf("%s/%d", conv, sl.ID)] = sl.Digest
				n++
			}
		}
		s.call(CView, Op{K: "ReleaseView", V: 900})
		s.settle()
	}
	drain()
	s.call(CView, Op{K: "DropViews"})
	s.call(CBarrier, Op{K: "Close"})
	s.alive = false
	s.killJobs()
	if r := s.call(CBarrier, Op{K: "New", Name: dir}); r.Err != "" {
		o.violate("restart", "second-restart-failed", what+": manager.New failed: "+r.Err)
		return
	}
	s.alive = true
	s.settle()
	drain()
	r2 := s.call(CBarrier, Op{K: "State"})
	v2 := s.call(CBarrier, Op{K: "FreshView", Convs: s.plan.Converters})
	s.call(CBarrier, Op{K: "Close"})
	s.alive = false
	s.killJobs()
	if r2.State == nil || v2.View == nil {
		s.res.Infra = "second restart probe failed"
		return
	}
	// tags of the first life plus the new one
	p1, p2 := project(st1), project(r2.State)
	if addErr == "" {
		p1["tag/z2"] = tagProj{Def: "cbytes:1:", Color: "#0f0f0f"}
	}
	for _, n := range unionKeys(p1, p2) {
		x, okx := p1[n]
		y, oky := p2[n]
		if okx != oky || x.Def != y.Def || x.Color != y.Color || fmt.Sprint(x.Convs) != fmt.Sprint(y.Convs) {
			if o.violate("restart-state", "second-life-tags", fmt.Sprintf("%s: tag %s was %+v (present=%v), after the second restart %+v (present=%v)", what, n, x, okx, y, oky)) {
				return
			}
		}
	}
	// streams unchanged
	k1 := map[uint64]string{}
	for _, sl := range v1.Streams {
		k1[sl.ID] = sl.Key
	}
	if v2.View.Err != "" {
		o.violate("restart-view", "view-error", what+": "+v2.View.Err)
		return
	}
	if len(v2.View.Streams) != len(v1.Streams) {
		if o.violate("restart-streams", "second-life-streams", fmt.Sprintf("%s: %d visible streams, %d before the second restart", what, len(v2.View.Streams), len(v1.Streams))) {
			return
		}
	}
	dg := map[uint64]string{}
	for _, sl := range v2.View.Streams {
		dg[sl.ID] = sl.Digest
		if k1[sl.ID] != sl.Key {
			if o.violate("restart-streams", "second-life-streams", fmt.Sprintf("%s: stream %d changed across a quiet restart", what, sl.ID)) {
				return
			}
		}
	}
	// converter caches: what was converted in the second life is still there, and nothing cached is garbage
	for key, want := range converted {
		conv, idStr, _ := strings.Cut(key, "/")
		var id uint64
		fmt.Sscan(idStr, &id)
		got, ok := v2.View.Conv[conv][id]
		if !ok {
			if o.violate("restart-cache", "conversion-lost", fmt.Sprintf("%s: the output of converter %s for stream %d, stored before a clean shutdown, is gone", what, conv, id)) {
				return
			}
			continue
		}
		if got != want {
			if o.violate("restart-cache", "conversion-garbled", fmt.Sprintf("%s: converter %s stream %d: cached output is for payload %s, stored for %s", what, conv, id, got, want)) {
				return
			}
		}
	}
	for _, conv := range sortedKeys(v2.View.Conv) {
		m := v2.View.Conv[conv]
		ids := make([]uint64, 0, len(m))
		for id := range m {
			ids = append(ids, id)
		}
		sort.Slice(ids, func(i, j int) bool { return ids[i] < ids[j] })
		for _, id := range ids {
			d := m[id]
			if d == "empty" && dg[id] == VconvDigest(nil) {
				continue
			}
			if _, mine := converted[fmt.Sprintf("%s/%d", conv, id)]; mine {
				continue
			}
			if strings.HasPrefix(d, "!") {
				if o.violate("restart-cache", "cache-garbage", fmt.Sprintf("%s: converter %s stream %d: cached output is unreadable or malformed (%s)", what, conv, id, d)) {
					return
				}
			}
		}
	}
	o.s.res.Count("c12_second_life_checks", 1)
}

func projTags(st *manager.VerifState) map[string]tagProj { return project(st) }

func (o *oracles) compareRestart(st *manager.VerifState, v *ViewSig, g map[string][]uint, before, after *modelAt, what string, settled bool) {
	// 1. tags, settings, endpoints: as acknowledged, the call in flight old or new
	match := func(m *modelAt) string {
		a, b := projTags(st), projTags(m.state)
		for _, n := range unionKeys(a, b) {
			x, okx := a[n]
			y, oky := b[n]
			if okx != oky {
				if oky {
					return fmt.Sprintf("tag %s is gone (was %+v)", n, y)
				}
				return fmt.Sprintf("tag %s appeared (%+v)", n, x)
			}
			if x.Def != y.Def || x.Color != y.Color {
				return fmt.Sprintf("tag %s: %q/%s, acknowledged %q/%s", n, x.Def, x.Color, y.Def, y.Color)
			}
			if fmt.Sprint(x.Convs) != fmt.Sprint(y.Convs) {
				return fmt.Sprintf("tag %s: converters %v, acknowledged %v", n, x.Convs, y.Convs)
			}
			if fmt.Sprint(x.RefBy) != fmt.Sprint(y.RefBy) {
				// what a tag is shown as (referenced or not) and what protects it from being deleted
				return fmt.Sprintf("tag %s: referenced by %v, before the restart by %v", n, x.RefBy, y.RefBy)
			}
		}
		if st.Config != m.state.Config {
			return fmt.Sprintf("config %+v, acknowledged %+v", st.Config, m.state.Config)
		}
		if fmt.Sprint(sortedCopy(st.Webhooks)) != fmt.Sprint(sortedCopy(m.state.Webhooks)) {
			return fmt.Sprintf("webhooks %v, acknowledged %v", st.Webhooks, m.state.Webhooks)
		}
		if fmt.Sprint(sortedCopy(st.Endpoints)) != fmt.Sprint(sortedCopy(m.state.Endpoints)) {
			return fmt.Sprintf("endpoints %v, acknowledged %v", st.Endpoints, m.state.Endpoints)
		}
		return ""
	}
	mb := match(before)
	if mb != "" {
		if ma := match(after); ma != "" {
			kind := "tags"
			switch {
			case strings.Contains(mb, "converters"):
				kind = "converters"
			case strings.Contains(mb, "referenced by"):
				kind = "referenced"
			case strings.Contains(mb, "config"), strings.Contains(mb, "webhooks"), strings.Contains(mb, "endpoints"):
				kind = "settings"
			case strings.Contains(mb, "is gone"):
				kind = "tag-lost"
			}
			if o.violate("restart-state", kind, fmt.Sprintf("%s: after restart %s (and with the call in flight applied: %s)", what, mb, ma)) {
				return
			}
		}
	}
	// 2. streams of applied imports: present under their old ids with their content (or the in-flight import's)
	if v.Err != "" {
		if o.violate("restart-view", "view-error", what+": view after restart failed: "+v.Err) {
			return
		}
		return
	}
	got := map[uint64]string{}
	for _, sl := range v.Streams {
		got[sl.ID] = sl.Key
	}
	// versions the service reports at any later step are legitimate too: an
	// import whose index file was complete but not yet announced may already
	// be visible after the restart
	afterKeys := map[uint64]string{}
	later := map[string]bool{}
	if after.view != nil {
		for _, sl := range after.view.Streams {
			afterKeys[sl.ID] = sl.Key
		}
	}
	for _, m := range o.laterModels(after) {
		if m.view == nil {
			continue
		}
		for _, sl := range m.view.Streams {
			later[fmt.Sprintf("%d/%s", sl.ID, sl.Key)] = true
		}
	}
	beforeKeys := map[uint64]string{}
	if before.view != nil {
		for _, sl := range before.view.Streams {
			beforeKeys[sl.ID] = sl.Key
			k, ok := got[sl.ID]
			if !ok {
				if o.violate("restart-streams", "stream-lost", fmt.Sprintf("%s: stream %d (%s) of a completed import is not visible after restart", what, sl.ID, sl.Tuple)) {
					return
				}
				continue
			}
			if k != sl.Key && k != afterKeys[sl.ID] && !later[fmt.Sprintf("%d/%s", sl.ID, k)] && !o.cleanRestartImportInFlight {
				if o.violate("restart-streams", "stream-changed", fmt.Sprintf("%s: stream %d (%s) shows different content after restart (an older or foreign version)", what, sl.ID, sl.Tuple)) {
					return
				}
			}
		}
	}
	for id, k := range got {
		if beforeKeys[id] != k && afterKeys[id] != k {
			if _, known := beforeKeys[id]; known {
				continue // reported above
			}
			if _, inAfter := afterKeys[id]; !inAfter && !later[fmt.Sprintf("%d/%s", id, k)] && !o.cleanRestartImportInFlight {
				if o.violate("restart-streams", "stream-garbage", fmt.Sprintf("%s: stream %d visible after restart was never reported by the service", what, id)) {
					return
				}
			}
		}
	}
	// independent of what the service itself showed before the kill: every
	// connection that a one-shot import of the captures whose import had
	// completed contains must be visible (the service's own view is the model
	// above; a service that had already lost an index file would agree with itself)
	if ref, err := o.reference(before.processed); err == nil && !o.completeOff {
		have := map[string]int{}
		for _, sl := range v.Streams {
			// Tuple is proto|client|server
			if f := strings.Split(sl.Tuple, "|"); len(f) == 3 {
				a, b := f[1], f[2]
				if b < a {
					a, b = b, a
				}
				have[f[0]+"|"+a+"|"+b]++
			}
		}
		for _, rs := range ref {
			t := rs.ConnKey()
			if have[t] == 0 {
				if o.violate("restart-streams", "stream-missing", fmt.Sprintf("%s: connection %s of the completed imports %v is not visible after restart", what, t, before.processed)) {
					return
				}
			}
		}
		o.s.res.Count("c12_reference_checks", 1)
	}
	// the stream count must cover every visible stream (ids are dense)
	maxID := int64(-1)
	for id := range got {
		if int64(id) > maxID {
			maxID = int64(id)
		}
	}
	if int64(st.NextStreamID) < maxID+1 {
		if o.violate("restart-streams", "stream-count", fmt.Sprintf("%s: after restart the service counts %d streams but stream %d is visible", what, st.NextStreamID, maxID)) {
			return
		}
	}
	// 3. tags converge to the correct sets
	if !settled {
		o.s.res.Count("c12_clean_restart_checks", 1)
		return
	}
	for _, t := range st.Tags {
		if len(t.Uncertain) != 0 {
			if o.violate("restart-tags", "not-converged", fmt.Sprintf("%s: tag %s still has %d pending streams after the restart settled", what, t.Name, len(t.Uncertain))) {
				return
			}
			continue
		}
		gg, ok := g[t.Name]
		if !ok {
			continue
		}
		if fmt.Sprint(gg) != fmt.Sprint(t.Matches) {
			// converter caches and the known C06 findings do not apply to a quiet restart, except converter data
			if convReading(t.Definition) {
				continue
			}
			G := setOf(gg)
			bad := false
			for _, m := range t.Matches {
				if !G[m] && uint64(m) < st.NextStreamID {
					bad = true
				}
			}
			M := setOf(t.Matches)
			for _, x := range gg {
				if !M[x] {
					bad = true
				}
			}
			if bad {
				if o.violate("restart-tags", "wrong-matches", fmt.Sprintf("%s: tag %s (%q) settled at %v, the definition gives %v", what, t.Name, t.Definition, t.Matches, gg)) {
					return
				}
			}
		}
	}
	o.s.res.Count("c12_restart_checks", 1)
}

var _ = sort.Strings

// laterModels: the models from m on (m included).
func (o *oracles) laterModels(m *modelAt) []*modelAt {
	if o.s.crash == nil {
		return []*modelAt{m}
	}
	for i, x := range o.s.crash.models {
		if x == m {
			return o.s.crash.models[i:]
		}
	}
	return []*modelAt{m}
}

// afterWriteFaultAPI: an API call ran while the disk was full. If the call
// was acknowledged (no error) what it changed must survive a kill right now;
// if it returned an error nothing is claimed about it, and because the
// in-memory state may then be ahead of the disk no further kill states of
// this run are judged.
func (o *oracles) afterWriteFaultAPI(op Op, r OpResult) {
	c := o.s.crash
	if c == nil || c.disabled {
		return
	}
	if r.Err != "" {
		c.disabled = true
		o.durabilityUnknown = true // also for clean restarts: Close does not save
		o.s.res.Count("probe_api_rejected_under_disk_full", 1)
		return
	}
	o.s.res.Count("probe_api_acknowledged_under_disk_full", 1)
	n := len(c.snaps)
	c.lastSig = ""
	c.take("after the acknowledged call "+op.K+" made while the disk was full", simrt.IOCount(), "", 0, 0)
	for _, sn := range c.snaps[n:] {
		sn.ack = true
	}
}
