// Package mgrsim runs the real manager (service loop, background jobs,
// builder, index, converters with a real child process) under the
// deterministic controller of DESIGN §2.2.
package mgrsim

import (
	"encoding/json"
	"fmt"
	"math/rand/v2"
	"os"
	"strings"
	"time"

	"github.com/spq/pkappa2/verif/netsim"
	"github.com/spq/pkappa2/verif/sim"
)

const (
	CBarrier = 0 // harness-internal: barrier and oracle probes
	CMut     = 1
	CImp     = 2
	CView    = 3
	NClients = 4
)

type Op struct {
	ID      int      `json:"id"`
	C       int      `json:"c"`
	K       string   `json:"k"`
	Name    string   `json:"name,omitempty"`
	Def     string   `json:"def,omitempty"`
	Color   string   `json:"color,omitempty"`
	NewName string   `json:"newname,omitempty"`
	IDs     []uint64 `json:"ids,omitempty"`
	Convs   []string `json:"convs,omitempty"`
	Files   []int    `json:"files,omitempty"`
	After   []int    `json:"after,omitempty"` // ImportBad: captures queued in the same call behind the bad one (Files: in front of it)
	V       int      `json:"v,omitempty"`
	Stream  uint64   `json:"stream,omitempty"`
	Conv    string   `json:"conv,omitempty"`
	Addr    string   `json:"addr,omitempty"`
	On      bool     `json:"on,omitempty"`
}

func (o Op) String() string {
	b, _ := json.Marshal(o)
	return string(b)
}

type Knobs struct {
	NumCPU         int    `json:"numcpu"`
	SnapEvery      uint64 `json:"snap_every"`
	CleanupMinFree int64  `json:"cleanup_min_free"`
}

// WriteFault: while the body of job Kind#Seq runs (or while API op OpID is
// executed, Kind "api") no regular file can grow beyond Limit bytes.
type WriteFault struct {
	Kind  string `json:"kind"`
	Seq   int    `json:"seq,omitempty"`
	OpID  int    `json:"op,omitempty"`
	Limit int64  `json:"limit"`
	// Restart: a clean restart follows as soon as one is allowed (what the step
	// could not write is then missing from what the next start reads)
	Restart bool `json:"restart,omitempty"`
}

type Plan struct {
	Prop          string       `json:"prop"`
	Seed          uint64       `json:"seed"`
	Run           uint64       `json:"run"`
	Tier          string       `json:"tier"`
	Net           netsim.Spec  `json:"net"`
	Ops           []Op         `json:"ops"`
	Knobs         Knobs        `json:"knobs"`
	Converters    []string     `json:"converters"`
	SchedSeed     uint64       `json:"sched_seed"`
	Steps         []string     `json:"steps,omitempty"` // replay: labels to take (lenient)
	MaxSteps      int          `json:"max_steps"`
	ConvFail      bool         `json:"conv_fail,omitempty"`    // converter transient failures
	ConvNoExec    string       `json:"conv_noexec,omitempty"`  // this converter's file is executable but cannot be started (its interpreter does not exist)
	ConvDie       bool         `json:"conv_die,omitempty"`     // converter exits in the middle of its input after printing one line (once per stream version)
	ConvGarble    bool         `json:"conv_garble,omitempty"`  // converter breaks the protocol once per stream version (one malformed line, then a normal answer)
	MergeFail     bool         `json:"merge_fail,omitempty"`   // disk error: creating the merged index file fails (every merge)
	MergeFailN    int          `json:"merge_fail_n,omitempty"` // ... or only the first n merges (later ones succeed)
	ImportFail    int          `json:"import_fail,omitempty"`  // disk error: the first n index file creations of imports fail
	WriteFail     []WriteFault `json:"write_fail,omitempty"`   // disk full during one step
	Restarts      []int        `json:"restarts,omitempty"`     // clean restart after these step numbers
	CrashEvery    int          `json:"crash_every,omitempty"`  // C12: snapshot at every n-th changed I/O point (1 = all)
	CrashMax      int          `json:"crash_max,omitempty"`
	Listener      bool         `json:"listener,omitempty"` // attach an event listener
	Loopback      bool         `json:"loopback,omitempty"` // C20: a PCAP-over-IP endpoint served over a real loopback socket (not replayable)
	NoOracle      bool         `json:"no_oracle,omitempty"`
	HideAtRestart string       `json:"hide_at_restart,omitempty"` // this converter's file is not executable at the first clean restart
	Yield         bool         `json:"yield,omitempty"`           // gates inside the converter job: other steps may run between two rounds of conversions
	Poip          bool         `json:"poip,omitempty"`            // C20: packets fed to the PCAP-over-IP handler (not replayable)
	// weights for the scheduler (per mille): probability to prefer a
	// background step over an API step when both are enabled
	BgBias int `json:"bg_bias"`
	// Hold: probability (per mille) that a chosen job step is withheld
	// this round ("slow job")
	Hold int `json:"hold"`
}

var tagNames = []string{"tag/a", "tag/b", "tag/c", "service/s", "service/t", "mark/m", "generated/g"}

func refName(full string) string {
	typ, sub, _ := strings.Cut(full, "/")
	return typ + ":" + sub
}

// genBase: start of the generated capture (unix seconds); set by Gen.
var genBase int64

// genDef draws a tag definition. existing: names that exist (for references).
func genDef(r *rand.Rand, self string, existing []string, convs []string, nStreams int, depth int) string {
	marker := func() string { return netsim.Markers[r.IntN(len(netsim.Markers))] }
	atom := func() string {
		switch r.IntN(17) {
		case 0:
			return fmt.Sprintf("id:%d:", r.IntN(nStreams+2))
		case 1:
			return fmt.Sprintf("id:%d,%d", r.IntN(nStreams+2), r.IntN(nStreams+2))
		case 2:
			return fmt.Sprintf("sport:%d", []int{80, 443, 1337, 8080, 31337, 53}[r.IntN(6)])
		case 3:
			return fmt.Sprintf("cport:%d:%d", 20000+r.IntN(10000), 30000+r.IntN(10000))
		case 4:
			return fmt.Sprintf("chost:10.0.%d.0/24", r.IntN(3))
		case 5:
			return []string{"protocol:tcp", "protocol:udp"}[r.IntN(2)]
		case 6:
			return fmt.Sprintf("cbytes:%d:", []int{1, 100, 1000, 5000}[r.IntN(4)])
		case 7:
			return fmt.Sprintf("sbytes::%d", []int{0, 100, 1000}[r.IntN(3)])
		case 8, 9:
			return fmt.Sprintf("%s:\"%s\"", []string{"data", "cdata", "sdata"}[r.IntN(3)], marker())
		case 10:
			if len(convs) > 0 {
				return fmt.Sprintf("%s.%s:\"%s\"", []string{"data", "cdata", "sdata"}[r.IntN(3)], convs[r.IntN(len(convs))], strings.ToUpper(marker()))
			}
			return fmt.Sprintf("data.none:\"%s\"", marker())
		case 11:
			if len(convs) > 0 {
				return fmt.Sprintf("data.%s:\"vconv\"", convs[r.IntN(len(convs))])
			}
			return "shost:fd00::1:0/112"
		case 12, 13:
			if len(existing) > 0 {
				n := existing[r.IntN(len(existing))]
				if n != self {
					return refName(n)
				}
			}
			return fmt.Sprintf("sport:%d", []int{80, 443}[r.IntN(2)])
		case 14:
			if len(existing) > 0 {
				n := existing[r.IntN(len(existing))]
				if n != self {
					return fmt.Sprintf("@o:%s sport:@o:sport@", refName(n))
				}
			}
			return "ltime:\"2020-01-01 0000:\""
		case 15:
			// an absolute time bound inside the capture
			t := time.Unix(genBase+int64(r.IntN(90)), 0).UTC().Format("2006-01-02 150405")
			return []string{"ltime:\"" + t + ":\"", "ftime:\":" + t + "\"", "ftime:\"" + t + ":\""}[r.IntN(3)]
		default:
			return fmt.Sprintf("data:\"[a-z]%s\"", marker())
		}
	}
	if depth <= 0 || r.IntN(3) == 0 {
		a := atom()
		if r.IntN(5) == 0 && !strings.HasPrefix(a, "@") && !strings.HasPrefix(a, "protocol") {
			return "-" + a
		}
		return a
	}
	l, rr := genDef(r, self, existing, convs, nStreams, depth-1), genDef(r, self, existing, convs, nStreams, depth-1)
	switch r.IntN(3) {
	case 0:
		return l + " " + rr
	case 1:
		return "(" + l + ") or (" + rr + ")"
	default:
		return l + " and " + rr
	}
}

type GenOpts struct {
	MaxConvs, MaxFiles, MaxPayload int
	NMut, NView                    int
	Converters                     []string
	Invalid                        bool // C11: also invalid names / definitions
}

// Gen draws the plan for one run.
func Gen(prop, tier string, seed, run uint64) Plan {
	r := sim.NewRand(seed, run)
	p := Plan{Prop: prop, Seed: seed, Run: run, Tier: tier, SchedSeed: r.Uint64()}
	p.MaxSteps = 400
	if tier == "thorough" {
		p.MaxSteps = 1200
	}
	cfg := netsim.DefaultGen()
	cfg.MaxConvs = 1 + r.IntN(10)
	cfg.MaxFiles = 1 + r.IntN(5)
	if tier == "thorough" && r.IntN(3) == 0 {
		// deeper bounds in a third of the thorough runs
		cfg.MaxConvs = 8 + r.IntN(24)
		cfg.MaxFiles = 3 + r.IntN(7)
	}
	if (prop == "C07" || prop == "C10" || prop == "C13" || prop == "C12" || prop == "C05" || prop == "C08") && r.IntN(3) == 0 {
		// merge-heavy: many short conversations, most of them late, cut into many
		// files — every new index file holds more streams than the ones before
		// it, so merges cascade (merged files are merged again)
		cfg.LateStarts = true
		cfg.MaxConvs = 8 + r.IntN(10)
		cfg.MaxFiles = 4 + r.IntN(4)
	}
	// a converter that crashes while it is still being fed needs a stream with many chunks
	wantDie := (prop == "C09" || prop == "C16" || prop == "C20") && run%7 != 6 && r.IntN(8) == 0
	cfg.Talkative = wantDie
	storm := prop == "C09" && run%7 == 6
	if storm {
		cfg.MinConvs, cfg.MaxConvs, cfg.MaxFiles = 12, 18, 2
	}
	cfg.MaxPayload = 20_000
	cfg.MaxMsgs = 5
	cfg.BigMsgs = false
	p.Net = *netsim.Gen(r, cfg)
	genBase = p.Net.BaseUnix
	if (prop == "C05" || prop == "C08" || prop == "C10" || prop == "C07" || prop == "C13") && r.IntN(6) == 0 {
		// capture files that overlap in time (the reference is an import of the same files)
		p.Net.Overlap = 2 + r.IntN(10)
		p.Net.Jumble = r.IntN(2) == 0
	}
	nf := len(netsim.Build(&p.Net).Files)
	nStreams := len(p.Net.Convs)
	p.Knobs = Knobs{NumCPU: 1, SnapEvery: 100_000, CleanupMinFree: 16 << 20}
	switch prop {
	case "C09", "C16", "C06", "C10", "C13":
		p.Yield = run%3 == 1
	}
	if r.IntN(3) == 0 {
		p.Knobs.SnapEvery = uint64(5 + r.IntN(100))
	}
	if r.IntN(3) == 0 {
		p.Knobs.CleanupMinFree = int64(64 + r.IntN(2000))
	}
	p.BgBias = []int{200, 500, 800}[r.IntN(3)]
	p.Hold = []int{0, 100, 300}[r.IntN(3)]
	useConv := prop == "C16" || prop == "C20" || storm || wantDie || r.IntN(2) == 0
	if useConv {
		p.Converters = []string{"vconv"}
		if r.IntN(3) == 0 {
			p.Converters = append(p.Converters, "wconv")
			if r.IntN(3) == 0 || (prop == "C11" || prop == "C16") && r.IntN(2) == 0 {
				p.Converters = append(p.Converters, "xconv")
			}
		}
	}
	if prop == "C16" || prop == "C09" || prop == "C20" {
		p.ConvFail = useConv && r.IntN(3) == 0
		p.ConvGarble = useConv && !p.ConvFail && r.IntN(4) == 0
		p.ConvDie = useConv && !p.ConvFail && !p.ConvGarble && !storm && (wantDie || r.IntN(6) == 0)
		if (prop == "C09" || prop == "C20") && len(p.Converters) > 0 && !storm && r.IntN(6) == 0 {
			p.ConvNoExec = p.Converters[len(p.Converters)-1]
		}
	}
	if prop == "C09" || prop == "C13" {
		p.MergeFail = r.IntN(5) == 0
		if !p.MergeFail && r.IntN(5) == 0 {
			p.MergeFailN = 1 + r.IntN(2)
		}
		if r.IntN(6) == 0 {
			p.ImportFail = 1 + r.IntN(2)
		}
	} else if prop != "C20" && prop != "C11" {
		// disk errors are part of every property's fault mix, at a lower rate
		p.MergeFail = r.IntN(10) == 0
		if !p.MergeFail && r.IntN(8) == 0 {
			p.MergeFailN = 1 + r.IntN(2)
		}
		if r.IntN(12) == 0 {
			p.ImportFail = 1 + r.IntN(2)
		}
	}
	p.Listener = prop == "C20"
	if prop == "C20" {
		// the race detector is the oracle; probes would add happens-before edges
		p.NoOracle = true
		p.Knobs.NumCPU = 4
		// real socket, real timing, and pkappa2 closes the connection's descriptor
		// twice (DESIGN §8.4), which can close any other descriptor of the process:
		// exploration only, not part of the registered check
		p.Loopback = os.Getenv("VERIF_LOOPBACK") != "" && (run%7 == 3 || run%7 == 5)
	}
	id := 0
	add := func(o Op) {
		id++
		o.ID = id
		p.Ops = append(p.Ops, o)
	}
	// importer: all files, mostly chronological, in batches
	order := make([]int, nf)
	for i := range order {
		order[i] = i
	}
	reversed := false
	if r.IntN(4) == 0 || (prop == "C06" || prop == "C08") && r.IntN(2) == 0 {
		// out of chronological order: streams get earlier packets later (reset
		// streams; a stream first seen through a server packet even swaps its endpoints)
		r.Shuffle(nf, func(i, j int) { order[i], order[j] = order[j], order[i] })
		if r.IntN(2) == 0 {
			for i := range order {
				order[i] = nf - 1 - i
			}
			reversed = true
		}
	}
	var impOps []Op
	for i := 0; i < nf; {
		n := 1
		if r.IntN(3) == 0 {
			n = 1 + r.IntN(nf-i)
		}
		impOps = append(impOps, Op{C: CImp, K: "Import", Files: append([]int(nil), order[i:i+n]...)})
		i += n
	}
	// mutator
	nMut := 4 + r.IntN(16)
	if tier == "thorough" && r.IntN(3) == 0 {
		nMut += r.IntN(30)
	}
	var mutOps []Op
	exists := map[string]bool{}
	existing := func() []string {
		var l []string
		for _, n := range tagNames {
			if exists[n] {
				l = append(l, n)
			}
		}
		return l
	}
	colors := []string{"#ff0000", "#00ff00", "#0000ff"}
	ids := func() []uint64 {
		n := 1 + r.IntN(3)
		var l []uint64
		for i := 0; i < n; i++ {
			l = append(l, uint64(r.IntN(nStreams+2)))
		}
		return l
	}
	detachScript := "" // converter that is detached from its last tag at the end of the plan
	invalid := prop == "C11"
	// lastDef/prevDef: a tag deleted and re-added (or updated and updated back)
	// with the *same* definition while a job for it is in flight passes every
	// "definition unchanged" test of the completion handlers
	lastDef, prevDef := map[string]string{}, map[string]string{}
	for i := 0; i < nMut; i++ {
		name := tagNames[r.IntN(len(tagNames))]
		isMark := strings.HasPrefix(name, "mark/") || strings.HasPrefix(name, "generated/")
		k := r.IntN(20)
		if !exists[name] && k >= 6 && r.IntN(4) != 0 {
			k = 0 // bias towards creating tags first
		}
		switch {
		case k < 6:
			def := genDef(r, name, existing(), p.Converters, nStreams, 2)
			if isMark {
				def = fmt.Sprintf("id:%d", r.IntN(nStreams+2))
				if r.IntN(3) == 0 {
					def = "id:-1"
				}
				if (prop == "C11" || prop == "C12" || prop == "C06") && r.IntN(4) == 0 {
					// the same set of ids written in another way than a plain list
					a, b := r.IntN(nStreams+1), r.IntN(nStreams+1)
					def = []string{fmt.Sprintf("(id:%d)", a), fmt.Sprintf("id:%d or id:%d", a, b), fmt.Sprintf("id:%d:%d", min(a, b), max(a, b)), fmt.Sprintf("(id:%d) or (id:%d)", a, b), fmt.Sprintf("id:%d id:%d:", a, min(a, b))}[r.IntN(5)]
				}
			}
			if invalid && r.IntN(6) == 0 {
				def = []string{"tag:nonexistent", refName(name), "data:\"(\"", "ftime:-1h:", "sport:80 group:\"x\"", "id:", "", "((("}[r.IntN(8)]
			}
			nm := name
			if invalid && r.IntN(8) == 0 {
				nm = []string{"tag/", "foo/bar", "noprefix", "mark/", "tag/a/b", ""}[r.IntN(6)]
			}
			if d, ok := lastDef[name]; ok && nm == name && !exists[name] && r.IntN(2) == 0 {
				def = d
			}
			if nm == name {
				lastDef[name] = def
			}
			mutOps = append(mutOps, Op{C: CMut, K: "AddTag", Name: nm, Color: colors[r.IntN(3)], Def: def})
			if nm == name {
				exists[name] = true // may fail at run time; harmless
			}
		case k < 9:
			def := genDef(r, name, existing(), p.Converters, nStreams, 2)
			if isMark && !((prop == "C11" || prop == "C12") && r.IntN(4) == 0) {
				// (C11/C12: a mark is also given an arbitrary query through the update call)
				def = fmt.Sprintf("id:%d,%d", r.IntN(nStreams+2), r.IntN(nStreams+2))
			}
			if invalid && r.IntN(4) == 0 {
				// cycles and dangling references through update
				ex := existing()
				if len(ex) > 0 {
					def = refName(ex[r.IntN(len(ex))])
				} else {
					def = "tag:nonexistent"
				}
			}
			if d, ok := prevDef[name]; ok && r.IntN(4) == 0 {
				def = d
			}
			if d, ok := lastDef[name]; ok {
				prevDef[name] = d
			}
			lastDef[name] = def
			mutOps = append(mutOps, Op{C: CMut, K: "UpdQuery", Name: name, Def: def})
		case k < 10:
			mutOps = append(mutOps, Op{C: CMut, K: "UpdColor", Name: name, Color: colors[r.IntN(3)]})
		case k < 11:
			nn := tagNames[r.IntN(len(tagNames))]
			if r.IntN(2) == 0 {
				typ, _, _ := strings.Cut(name, "/")
				nn = typ + "/" + []string{"x", "y", "a"}[r.IntN(3)]
			}
			mutOps = append(mutOps, Op{C: CMut, K: "UpdName", Name: name, NewName: nn})
		case k < 13:
			mutOps = append(mutOps, Op{C: CMut, K: "DelTag", Name: name})
			exists[name] = false
		case k < 16:
			m := []string{"mark/m", "generated/g"}[r.IntN(2)]
			if invalid && r.IntN(5) == 0 {
				m = name
			}
			kk := "MarkAdd"
			if r.IntN(3) == 0 {
				kk = "MarkDel"
			}
			l := ids()
			if invalid && r.IntN(6) == 0 {
				l = []uint64{0}
			}
			if invalid && r.IntN(6) == 0 {
				// ids near the ends of the number range
				l = append(l, []uint64{1<<64 - 1, 1<<64 - 2, 1 << 63, 1 << 32, 1<<32 - 1}[r.IntN(5)])
				if r.IntN(2) == 0 {
					l[0], l[len(l)-1] = l[len(l)-1], l[0]
				}
			}
			mutOps = append(mutOps, Op{C: CMut, K: kk, Name: m, IDs: l})
		case k < 19:
			var cs []string
			all := r.IntN(4) == 0
			for _, c := range p.Converters {
				if all || r.IntN(2) == 0 {
					cs = append(cs, c)
				}
			}
			if invalid && r.IntN(5) == 0 {
				cs = append(cs, "nosuchconv")
			}
			if invalid && len(cs) > 0 && r.IntN(5) == 0 {
				cs = append(cs, cs[r.IntN(len(cs))]) // the same converter named twice
			}
			mutOps = append(mutOps, Op{C: CMut, K: "SetConv", Name: name, Convs: cs})
		default:
			if len(p.Converters) > 0 && r.IntN(2) == 0 {
				mutOps = append(mutOps, Op{C: CMut, K: "ResetConv", Conv: p.Converters[r.IntN(len(p.Converters))]})
			} else {
				o := Op{C: CMut, K: []string{"Status", "ListConverters", "ListTags", "KnownPcaps", "ListEndpoints", "ConvStderr", "PrefetchPage"}[r.IntN(7)]}
				if o.K == "ConvStderr" {
					if len(p.Converters) == 0 {
						o.K = "ListConverters"
					} else {
						o.Conv = p.Converters[r.IntN(len(p.Converters))]
					}
				}
				if o.K == "PrefetchPage" {
					// the first page of a result list with every tag prefetched, as the UI asks for it
					o.Def = []string{"sort:id limit:1", "sort:-id limit:2", "sort:sport limit:1"}[r.IntN(3)]
				}
				mutOps = append(mutOps, o)
			}
		}
	}
	if (prop == "C11" || prop == "C06" || prop == "C13") && r.IntN(3) == 0 {
		// identity replacement: a tag is deleted and re-created with the same
		// definition (the object changes, nothing a "definition unchanged" test
		// looks at does) and another tag starts referencing the new object; placed
		// anywhere, so that it also lands between launch and completion of a job
		for _, n := range tagNames[r.IntN(3):] {
			d, ok := lastDef[n]
			if !ok || !exists[n] || strings.HasPrefix(n, "mark/") || strings.HasPrefix(n, "generated/") || n == "tag/c" {
				continue
			}
			seq := []Op{{C: CMut, K: "DelTag", Name: n}, {C: CMut, K: "AddTag", Name: n, Color: colors[r.IntN(3)], Def: d},
				{C: CMut, K: "AddTag", Name: "tag/c", Color: colors[r.IntN(3)], Def: refName(n) + " " + []string{"sport:80,443", "protocol:tcp", "cbytes:1:"}[r.IntN(3)]}}
			at := len(mutOps) / 2
			if at < len(mutOps) {
				at += r.IntN(len(mutOps) - at)
			}
			mutOps = append(mutOps[:at], append(seq, mutOps[at:]...)...)
			break
		}
	}
	if prop == "C11" && r.IntN(5) == 0 {
		// a diamond below a tag, then repeated attempts to close a cycle through it
		dia := []Op{
			{C: CMut, K: "AddTag", Name: "service/s", Color: "#0a0a0a", Def: "sport:80,443"},
			{C: CMut, K: "AddTag", Name: "tag/a", Color: "#0a0a0a", Def: "service:s"},
			{C: CMut, K: "AddTag", Name: "tag/b", Color: "#0a0a0a", Def: "service:s cbytes:1:"},
			{C: CMut, K: "AddTag", Name: "service/t", Color: "#0a0a0a", Def: "sport:8080"},
			{C: CMut, K: "AddTag", Name: "tag/c", Color: "#0a0a0a", Def: "tag:a tag:b service:t"},
		}
		for i := 0; i < 5; i++ {
			dia = append(dia, Op{C: CMut, K: "UpdQuery", Name: "service/t", Def: []string{"tag:c", "tag:c sport:8080", "-tag:c"}[r.IntN(3)]})
		}
		at := r.IntN(1 + len(mutOps)/4)
		mutOps = append(mutOps[:at], append(dia, mutOps[at:]...)...)
	}
	if (prop == "C11" || prop == "C12") && r.IntN(4) == 0 {
		// a long reference chain (every tag references the previous one)
		names := []string{"mark/m", "service/s", "service/t", "tag/a", "tag/b", "tag/c"}
		var chain []Op
		for i, n := range names[:4+r.IntN(3)] {
			def := fmt.Sprintf("id:%d", r.IntN(nStreams+1))
			if i > 0 {
				def = refName(names[i-1]) + []string{"", "", " protocol:tcp", " cbytes:1:"}[r.IntN(4)]
			}
			chain = append(chain, Op{C: CMut, K: "AddTag", Name: n, Color: "#fedcba", Def: def})
		}
		at := r.IntN(1 + len(mutOps)/4)
		mutOps = append(mutOps[:at], append(chain, mutOps[at:]...)...)
	}
	if (prop == "C06" || prop == "C09" || prop == "C11" || prop == "C10" || prop == "C12") && r.IntN(3) == 0 {
		// a reference chain that ends in a sub-query reference: X <- b (plain
		// reference) <- a (sub-query over b); named so that generated references only point from later to earlier names (oracles.go rank); X changes through marks, edits and
		// converter events, i.e. invalidations that reach a only by inheritance
		x := []string{"mark/m", "generated/g", "service/s"}[r.IntN(3)]
		xdef := fmt.Sprintf("id:%d", r.IntN(nStreams+1))
		if x == "service/s" {
			xdef = []string{"sport:80,443", "cbytes:100:", "data:\"" + netsim.Markers[r.IntN(len(netsim.Markers))] + "\""}[r.IntN(3)]
		}
		chain := []Op{
			{C: CMut, K: "AddTag", Name: x, Color: "#abcdef", Def: xdef},
			{C: CMut, K: "AddTag", Name: "tag/a", Color: "#abcdef", Def: refName(x) + []string{"", " protocol:tcp", " cbytes:1:"}[r.IntN(3)]},
			{C: CMut, K: "AddTag", Name: "tag/b", Color: "#abcdef", Def: "@o:tag:a " + []string{"sport:@o:sport@", "chost:@o:chost@", "shost:@o:shost@ sport:@o:sport@"}[r.IntN(3)]},
		}
		at := r.IntN(1 + len(mutOps)/3)
		mutOps = append(mutOps[:at], append(chain, mutOps[at:]...)...)
		for i, m := 0, 1+r.IntN(3); i < m; i++ {
			kk := "MarkAdd"
			if r.IntN(3) == 0 {
				kk = "MarkDel"
			}
			tgt := x
			if x == "service/s" {
				tgt = "mark/m"
			}
			o := Op{C: CMut, K: kk, Name: tgt, IDs: ids()}
			pos := at + len(chain) + r.IntN(len(mutOps)-at-len(chain)+1)
			mutOps = append(mutOps[:pos], append([]Op{o}, mutOps[pos:]...)...)
		}
	}
	if reversed && nf > 1 {
		// endpoint filters decided before the earlier capture arrives
		pre := []Op{
			{C: CMut, K: "AddTag", Name: "service/t", Color: "#654321", Def: "sport:80,443,1337,8080,31337,53"},
			{C: CMut, K: "AddTag", Name: "tag/c", Color: "#654321", Def: []string{"cport:20000:40000", "chost:10.0.0.0/16", "shost:10.1.0.0/24 protocol:tcp"}[r.IntN(3)]},
		}
		mutOps = append(pre, mutOps...)
	}
	if useConv && (prop == "C16" || r.IntN(2) == 0) {
		// make converter jobs happen: a simple tag that matches most streams with a converter attached early
		def := []string{"id:0:", "cbytes:1:", "sport:80,443,1337,8080,31337,53", "protocol:tcp", "sbytes:0:"}[r.IntN(5)]
		name := []string{"service/s", "service/t"}[r.IntN(2)]
		pre := []Op{{C: CMut, K: "AddTag", Name: name, Color: "#123456", Def: def}, {C: CMut, K: "SetConv", Name: name, Convs: []string{p.Converters[r.IntN(len(p.Converters))]}}}
		if prop == "C06" || prop == "C16" || r.IntN(3) == 0 {
			// and a tag that searches the converter's output, so that converter
			// completions, resets and on-demand conversions change a tag's answer
			// while tagging jobs for it are in flight
			c := p.Converters[r.IntN(len(p.Converters))]
			rd := []string{fmt.Sprintf("data.%s:\"vconv\"", c), fmt.Sprintf("cdata.%s:\"%s\"", c, strings.ToUpper(netsim.Markers[r.IntN(len(netsim.Markers))])), fmt.Sprintf("-data.%s:\"vconv\"", c), fmt.Sprintf("sdata.%s:\"[A-Z]\" sport:80,443,8080", c)}[r.IntN(4)]
			rdName := []string{"tag/a", "tag/b"}[r.IntN(2)]
			pre = append(pre, Op{C: CMut, K: "AddTag", Name: rdName, Color: "#123456", Def: rd})
			if r.IntN(2) == 0 {
				// and a tag that references the reader: it has to follow when converter
				// completions make the reader pending
				pre = append(pre, Op{C: CMut, K: "AddTag", Name: "tag/c", Color: "#123456", Def: refName(rdName) + []string{"", " protocol:tcp", " cbytes:1:"}[r.IntN(3)]})
			}
		}
		at := r.IntN(1 + len(mutOps)/3)
		mutOps = append(mutOps[:at], append(pre, mutOps[at:]...)...)
		if (prop == "C06" || prop == "C16") && r.IntN(2) == 0 {
			// later the converter loses its last tag (its cache is dropped) after
			// viewers converted streams on demand, also streams the tag never matched
			mutOps = append(mutOps, Op{C: CMut, K: "SetConv", Name: name})
			detachScript = pre[1].Convs[0]
		}
	}
	if useConv && len(p.Converters) > 0 && len(mutOps) > 0 && (prop == "C16" || prop == "C09" || prop == "C13" || prop == "C06" || prop == "C20") && r.IntN(3) == 0 {
		// the file of a converter disappears from the converter directory and
		// comes back later (the watcher's closures, delivered at seeded steps), or
		// it is rewritten (restart); afterwards it is attached to a tag again
		c := p.Converters[r.IntN(len(p.Converters))]
		if r.IntN(4) == 0 {
			at := r.IntN(len(mutOps) + 1)
			mutOps = append(mutOps[:at], append([]Op{{C: CMut, K: "ConvWrite", Conv: c}}, mutOps[at:]...)...)
		} else {
			at := r.IntN(len(mutOps) + 1)
			mutOps = append(mutOps[:at], append([]Op{{C: CMut, K: "ConvRemove", Conv: c}}, mutOps[at:]...)...)
			back := at + 1 + r.IntN(len(mutOps)-at)
			re := []Op{{C: CMut, K: "ConvCreate", Conv: c}}
			if r.IntN(2) == 0 {
				re[0].K = "ConvWrite" // a change event for a converter that is not loaded adds it, too
			}
			if ex := existing(); len(ex) > 0 && r.IntN(3) != 0 {
				re = append(re, Op{C: CMut, K: "SetConv", Name: ex[r.IntN(len(ex))], Convs: []string{c}})
			}
			mutOps = append(mutOps[:back], append(re, mutOps[back:]...)...)
		}
	}
	if prop == "C12" || prop == "C20" {
		// settings and endpoints bookkeeping
		// inserted at seeded positions (the order of the tag operations is kept:
		// scripts such as reference chains depend on it)
		for i, m := 0, 1+r.IntN(4); i < m; i++ {
			var o Op
			switch r.IntN(5) {
			case 0:
				o = Op{C: CMut, K: "SetConfig", On: r.IntN(2) == 0}
			case 1:
				o = Op{C: CMut, K: "AddWebhook", Addr: fmt.Sprintf("http://127.0.0.1:1/hook%d", r.IntN(3))}
			case 2:
				o = Op{C: CMut, K: "DelWebhook", Addr: fmt.Sprintf("http://127.0.0.1:1/hook%d", r.IntN(3))}
			case 3:
				o = Op{C: CMut, K: "AddEndpoint", Addr: fmt.Sprintf("127.0.0.1:%d", 1+r.IntN(3))}
				if r.IntN(3) == 0 {
					o.Addr = []string{"localhost:1", "localhost:2", ":7"}[r.IntN(3)]
				}
			case 4:
				o = Op{C: CMut, K: "DelEndpoint", Addr: fmt.Sprintf("127.0.0.1:%d", 1+r.IntN(3))}
			}
			at := r.IntN(len(mutOps) + 1)
			mutOps = append(mutOps[:at], append([]Op{o}, mutOps[at:]...)...)
		}
	}
	// viewer
	var viewOps []Op
	if detachScript != "" {
		viewOps = append(viewOps, Op{C: CView, K: "OpenView", V: 99})
		for i, m := 0, 2+r.IntN(3); i < m; i++ {
			viewOps = append(viewOps, Op{C: CView, K: "StreamData", V: 99, Stream: uint64(r.IntN(nStreams + 1)), Conv: detachScript})
		}
		viewOps = append(viewOps, Op{C: CView, K: "ReleaseView", V: 99})
	}
	nView := 2 + r.IntN(10)
	if prop == "C16" || prop == "C10" || prop == "C13" {
		nView += r.IntN(10)
	}
	open := []int{}
	nextV := 1
	for i := 0; i < nView; i++ {
		switch k := r.IntN(10); {
		case k < 3 || len(open) == 0:
			viewOps = append(viewOps, Op{C: CView, K: "OpenView", V: nextV})
			open = append(open, nextV)
			nextV++
		case k < 6:
			viewOps = append(viewOps, Op{C: CView, K: "ReadView", V: open[r.IntN(len(open))]})
		case k < 8:
			conv := ""
			if len(p.Converters) > 0 && r.IntN(3) != 0 {
				conv = p.Converters[r.IntN(len(p.Converters))]
			}
			vi := r.IntN(len(open))
			if r.IntN(2) == 0 {
				vi = 0 // the oldest view still open: several imports may lie between its snapshot and now
			}
			viewOps = append(viewOps, Op{C: CView, K: "StreamData", V: open[vi], Stream: uint64(r.IntN(nStreams + 1)), Conv: conv})
		default:
			j := r.IntN(len(open))
			viewOps = append(viewOps, Op{C: CView, K: "ReleaseView", V: open[j]})
			open = append(open[:j], open[j+1:]...)
		}
	}
	if r.IntN(3) != 0 {
		for _, v := range open {
			viewOps = append(viewOps, Op{C: CView, K: "ReleaseView", V: v})
		}
	}
	if prop == "C20" {
		// read-only calls on the viewer's goroutine while the other client changes
		// tags and converters: stderr of a converter process, the first page of a
		// result list with every tag prefetched
		for i, m := 0, 2+r.IntN(4); i < m; i++ {
			o := Op{C: CView, K: "PrefetchPage", Def: []string{"sort:id limit:1", "sort:-id limit:2", "sort:sport limit:1"}[r.IntN(3)]}
			if len(p.Converters) > 0 && r.IntN(2) == 0 {
				o = Op{C: CView, K: "ConvStderr", Conv: p.Converters[r.IntN(len(p.Converters))]}
			}
			at := r.IntN(len(viewOps) + 1)
			viewOps = append(viewOps[:at], append([]Op{o}, viewOps[at:]...)...)
		}
	}
	if (prop == "C09" || prop == "C12" || prop == "C13") && r.IntN(4) == 0 {
		// fault: an upload that is not a capture file at all, a cut one, or a
		// well-formed capture without a single packet
		bad := Op{C: CImp, K: "ImportBad", V: r.IntN(4)}
		at := r.IntN(len(impOps) + 1)
		impOps = append(impOps[:at], append([]Op{bad}, impOps[at:]...)...)
	} else if (prop == "C10" || prop == "C05" || prop == "C08" || prop == "C07" || prop == "C06" || prop == "C16") && r.IntN(5) == 0 {
		// a capture file that holds no packet (a rotated capture with only its header)
		bad := Op{C: CImp, K: "ImportBad", V: 3}
		if r.IntN(2) == 0 {
			bad.V = 0 // not a capture at all: skipped by the import, never listed
		}
		at := r.IntN(len(impOps) + 1)
		impOps = append(impOps[:at], append([]Op{bad}, impOps[at:]...)...)
	}
	// a bad capture in the middle of one import call: [good..., bad, good...]
	for i := 1; i+1 < len(impOps); i++ {
		if impOps[i].K == "ImportBad" && impOps[i-1].K == "Import" && impOps[i+1].K == "Import" && r.IntN(2) == 0 {
			impOps[i].Files = impOps[i-1].Files
			impOps[i].After = impOps[i+1].Files
			impOps = append(impOps[:i-1], append([]Op{impOps[i]}, impOps[i+2:]...)...)
			break
		}
	}
	if p.Loopback {
		mutOps = append([]Op{{C: CMut, K: "AddEndpoint", Addr: "LOOPBACK"}}, mutOps...)
	}
	if (prop == "C09" || prop == "C16") && len(p.Converters) > 0 && !p.ConvFail && !p.ConvDie && !p.ConvGarble && r.IntN(8) == 0 {
		// nine and more restarts of one converter, each after an on-demand conversion
		c := p.Converters[r.IntN(len(p.Converters))]
		for i, m := 0, 9+r.IntN(4); i < m; i++ {
			mutOps = append(mutOps, Op{C: CMut, K: "ConvertAndReset", Conv: c, Stream: uint64(r.IntN(nStreams + 1))})
		}
	}
	if prop == "C09" && run%7 == 6 && len(p.Converters) > 0 {
		// conversion storm (real-time overlap of API calls, see control.go): in the second half of the calls
		at := len(mutOps)/2 + r.IntN(len(mutOps)/2+1)
		st := Op{C: CMut, K: "Storm", Conv: p.Converters[0], V: 10 + r.IntN(6)}
		mutOps = append(mutOps[:at], append([]Op{st}, mutOps[at:]...)...)
	}
	if (prop == "C20" || prop == "C09") && (run%7 == 3 || run%7 == 5) && nf > 0 {
		// PCAP-over-IP ingestion without a socket: packets are handed to the real
		// packet handler; its capture writer and the import it queues run outside
		// the controller's schedule, so these runs are not replayable (they are not
		// among the run indices of the determinism probe) — the race detector
		// does not need them to be
		for i, m := 0, 1+r.IntN(3); i < m; i++ {
			at := r.IntN(len(mutOps) + 1)
			feed := Op{C: CMut, K: "PoipFeed", Files: []int{r.IntN(nf)}, V: 2 + r.IntN(40)}
			mutOps = append(mutOps[:at], append([]Op{feed}, mutOps[at:]...)...)
		}
		p.Poip = true
	}
	quietOdds := 3
	if prop == "C16" {
		quietOdds = 2
	}
	qd := r.IntN(12)
	if (p.Yield && qd%quietOdds == 0 || prop == "C16" && !p.Yield && qd < 3) && useConv && len(p.Converters) > 0 && (prop == "C09" || prop == "C16") && !p.Poip && run%7 != 6 {
		// quiet plan around one converter job: a single tag without payload or time
		// filter (an import that only extends streams does not make it pending)
		// with a converter attached, captures imported one by one in order. What
		// matters is what happens when an import is applied between two rounds of
		// the converter job and nothing else comes along afterwards to start jobs.
		def := []string{"id:0:", "sport:80,443,1337,8080,31337,53", "protocol:tcp", "cport:1:"}[r.IntN(4)]
		mutOps = []Op{
			{C: CMut, K: "AddTag", Name: "service/t", Color: "#123456", Def: def},
			{C: CMut, K: "SetConv", Name: "service/t", Convs: []string{p.Converters[r.IntN(len(p.Converters))]}},
		}
		if v := r.IntN(3); v == 0 && len(p.Converters) > 1 {
			// a second tag gets another converter while the first converter's job may
			// be running, then the first converter's file disappears (and comes back):
			// the second converter's queue must still be served
			a := mutOps[1].Convs[0]
			b := a
			for _, c := range p.Converters {
				if c != a {
					b = c
				}
			}
			def2 := []string{"id:0:", "sport:80,443,1337,8080,31337,53", "protocol:tcp", "cport:1:"}[r.IntN(4)]
			mutOps = append(mutOps, Op{C: CMut, K: "AddTag", Name: "service/s", Color: "#123456", Def: def2})
			for i, m := 0, 3+r.IntN(12); i < m; i++ {
				mutOps = append(mutOps, Op{C: CMut, K: "UpdColor", Name: "service/t", Color: colors[r.IntN(len(colors))]})
			}
			mutOps = append(mutOps, Op{C: CMut, K: "SetConv", Name: "service/s", Convs: []string{b}}, Op{C: CMut, K: "ConvRemove", Conv: a})
			if r.IntN(2) == 0 {
				mutOps = append(mutOps, Op{C: CMut, K: "ConvCreate", Conv: a}, Op{C: CMut, K: "SetConv", Name: "service/t", Convs: []string{a}})
			}
		} else if v == 1 {
			// a second tag with overlapping matches shares the converter and loses it
			// again later, possibly while streams of both tags wait in the queue
			c := mutOps[1].Convs
			def2 := []string{"id:0:", "sport:80,443,1337,8080,31337,53", "protocol:tcp", "cport:1:"}[r.IntN(4)]
			mutOps = append(mutOps,
				Op{C: CMut, K: "AddTag", Name: "service/s", Color: "#123456", Def: def2},
				Op{C: CMut, K: "SetConv", Name: "service/s", Convs: c})
			for i, m := 0, 4+r.IntN(14); i < m; i++ {
				mutOps = append(mutOps, Op{C: CMut, K: "UpdColor", Name: "service/t", Color: colors[r.IntN(len(colors))]})
			}
			mutOps = append(mutOps, Op{C: CMut, K: "SetConv", Name: "service/s"})
		}
		if len(viewOps) > 3 {
			viewOps = viewOps[:3]
		}
		impOps = nil
		for i := 0; i < nf; i++ {
			impOps = append(impOps, Op{C: CImp, K: "Import", Files: []int{i}})
		}
		// most jobs are slow to start here: a converter job that waits at its
		// start while imports and tagging jobs go on fills the converter's queue
		p.Hold = 700
	}
	for _, o := range impOps {
		add(o)
	}
	for _, o := range mutOps {
		add(o)
	}
	for _, o := range viewOps {
		add(o)
	}
	if prop == "C13" && r.IntN(3) == 0 {
		p.Restarts = []int{8 + r.IntN(40)}
	}
	if (prop == "C05" || prop == "C08" || prop == "C10" || prop == "C07" || prop == "C06" || prop == "C16") && r.IntN(4) == 0 {
		p.Restarts = []int{5 + r.IntN(40)}
		if r.IntN(3) == 0 {
			p.Restarts = append(p.Restarts, p.Restarts[0]+3+r.IntN(30))
		}
	}
	if useConv && len(p.Converters) > 0 && len(p.Restarts) > 0 && (prop == "C16" || prop == "C06") && r.IntN(2) == 0 {
		// not executable at the restart, made executable again by one of the last calls
		c := p.Converters[r.IntN(len(p.Converters))]
		p.HideAtRestart = c
		id := 0
		for _, o := range p.Ops {
			if o.ID > id {
				id = o.ID
			}
		}
		p.Ops = append(p.Ops, Op{ID: id + 1, C: CMut, K: "ConvWrite", Conv: c})
		if ex := existing(); len(ex) > 0 {
			p.Ops = append(p.Ops, Op{ID: id + 2, C: CMut, K: "SetConv", Name: ex[r.IntN(len(ex))], Convs: []string{c}})
		}
	}
	if cfg.LateStarts && (prop == "C13" || prop == "C12" || prop == "C10" || prop == "C07") && r.IntN(3) == 0 {
		// merge-heavy plan: the disk fills up while one of the merges writes its output
		p.WriteFail = append(p.WriteFail, WriteFault{Kind: "merge", Seq: r.IntN(3), Limit: int64(200 + r.IntN(12000))})
	}
	if (prop == "C09" || prop == "C13" || prop == "C12" || prop == "C10" || prop == "C06" || prop == "C05" || prop == "C07" || prop == "C08" || prop == "C16") && r.IntN(5) == 0 {
		// disk full while an import or merge writes its files
		limits := []int64{1, 64, 300, 1000, 2500, 4096, 6000, 9000, 15000}
		for i, m := 0, 1+r.IntN(2); i < m; i++ {
			k := []string{"import", "import", "merge"}[r.IntN(3)]
			p.WriteFail = append(p.WriteFail, WriteFault{Kind: k, Seq: r.IntN(3), Limit: limits[r.IntN(len(limits))]})
		}
	}
	if prop == "C11" && r.IntN(6) == 0 && len(mutOps) > 0 {
		// disk full while a tag call saves the state: whatever the call answers,
		// the tag graph must stay well-formed (atomicity of that one call is not judged)
		o := p.Ops[len(impOps)+r.IntN(len(mutOps))]
		p.WriteFail = append(p.WriteFail, WriteFault{Kind: "api", OpID: o.ID, Limit: []int64{1, 16, 100}[r.IntN(3)]})
	}
	if prop == "C08" && r.IntN(4) == 0 {
		// the disk is full while the completion of an import saves the state file
		// (the index file is written, the saved list of captures is not), restart,
		// further imports: the result must still be that of a one-shot import
		p.WriteFail = append(p.WriteFail, WriteFault{Kind: "post-import", Seq: r.IntN(3), Limit: 1, Restart: true})
	}
	if prop == "C11" && len(p.WriteFail) == 0 && r.IntN(4) == 0 {
		// the calls must stay total and the graph well-formed on a restarted service too
		p.Restarts = []int{3 + r.IntN(25)}
	}
	if prop == "C12" && r.IntN(3) == 0 && len(mutOps) > 0 {
		// disk full while an API call saves the state
		o := p.Ops[len(impOps)+r.IntN(len(mutOps))]
		p.WriteFail = append(p.WriteFail, WriteFault{Kind: "api", OpID: o.ID, Limit: []int64{1, 16, 100, 400}[r.IntN(4)]})
	}
	if prop == "C12" {
		p.CrashEvery = 1
		p.CrashMax = 30
		if r.IntN(3) == 0 {
			// fewer kill states of more histories, or every kill state of one history
			p.CrashMax = 80
		}
		if tier == "thorough" {
			p.CrashMax = 400
		}
		if r.IntN(3) == 0 {
			p.Restarts = []int{5 + r.IntN(40)}
		}
	}
	return p
}
