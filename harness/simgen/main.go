// simgen rewrites the current working tree of /repo into an instrumented copy
// (in a scratch directory) and emits a go build overlay. /repo is not touched.
// Rules R1..R7 are described in DESIGN.md §2.1. A missing mandatory anchor is
// an infrastructure failure (exit 2), never a VIOLATION.
package main

import (
	"bytes"
	"encoding/json"
	"flag"
	"fmt"
	"go/ast"
	"go/format"
	"go/importer"
	"go/parser"
	"go/token"
	"go/types"
	"io"
	"os"
	"os/exec"
	"path/filepath"
	"sort"
	"strconv"
	"strings"
)

const simrtPath = "github.com/spq/pkappa2/verif/simrt"

type listPkg struct {
	ImportPath string
	Dir        string
	GoFiles    []string
	CgoFiles   []string
	Export     string
	Standard   bool
}

var (
	repo    = flag.String("repo", "/repo", "repository working tree")
	out     = flag.String("out", "", "scratch output directory")
	extra   = flag.String("extra", "", "directory with files to add: <pkgdir-with-__>/<file>")
	goBin   = flag.String("go", "go", "go binary")
	verbose = flag.Bool("v", false, "verbose")
)

var targets = []string{
	"internal/index/manager",
	"internal/index/builder",
	"internal/index",
	"internal/index/converters",
	"internal/index/udpreassembly",
	"internal/index/streams",
	"internal/query",
	"internal/tools",
	"cmd/pkappa2",
}

var jobMethods = map[string]bool{"importPcapJob": true, "updateTagJob": true, "mergeIndexesJob": true, "convertStreamJob": true}

type stats struct {
	Creates, Opens, Watchers, Spawned, JobBegin, JobPost, JobYield, Unlocked, Clock, Ticker, MapRange, MapRangeSkipped, IOPoints, NumCPU, KnobSnap, KnobCleanup, WorkerIdle int
}

func fail(format string, a ...any) {
	fmt.Fprintf(os.Stderr, "simgen: "+format+"\n", a...)
	os.Exit(2)
}

func main() {
	flag.Parse()
	if *out == "" {
		fail("-out required")
	}
	if err := os.MkdirAll(*out, 0o755); err != nil {
		fail("%v", err)
	}
	overlay := map[string]string{}
	// web/dist is absent in this sandbox and embedded by cmd/pkappa2.
	dist := filepath.Join(*repo, "web", "dist")
	if _, err := os.Stat(filepath.Join(dist, "index.html")); err != nil {
		p := filepath.Join(*out, "web_dist_index.html")
		os.WriteFile(p, []byte("<html></html>\n"), 0o644)
		overlay[filepath.Join(dist, "index.html")] = p
	}
	baseOverlay := filepath.Join(*out, "overlay.base.json")
	writeOverlay(baseOverlay, overlay)

	// export data for the importer
	args := []string{"list", "-overlay", baseOverlay, "-export", "-deps", "-json=ImportPath,Dir,GoFiles,CgoFiles,Export,Standard"}
	for _, t := range targets {
		args = append(args, "./"+t)
	}
	cmd := exec.Command(*goBin, args...)
	cmd.Dir = *repo
	var stderr bytes.Buffer
	cmd.Stderr = &stderr
	outb, err := cmd.Output()
	if err != nil {
		fail("go list failed: %v\n%s", err, stderr.String())
	}
	pkgs := map[string]*listPkg{}
	dec := json.NewDecoder(bytes.NewReader(outb))
	for {
		var p listPkg
		if err := dec.Decode(&p); err == io.EOF {
			break
		} else if err != nil {
			fail("go list json: %v", err)
		}
		pp := p
		pkgs[p.ImportPath] = &pp
	}
	fset := token.NewFileSet()
	lookup := func(path string) (io.ReadCloser, error) {
		p, ok := pkgs[path]
		if !ok || p.Export == "" {
			return nil, fmt.Errorf("no export data for %q", path)
		}
		return os.Open(p.Export)
	}
	imp := importer.ForCompiler(fset, "gc", lookup)

	st := &stats{}
	for _, t := range targets {
		ip := "github.com/spq/pkappa2/" + t
		p, ok := pkgs[ip]
		if !ok {
			fail("package %s not listed", ip)
		}
		rewritePackage(fset, imp, p, t, overlay, st)
	}
	// mandatory anchors
	if st.Spawned < 4 || st.JobBegin != 4 || st.JobPost < 4 {
		fail("mandatory gate anchors missing: spawned=%d begin=%d post=%d", st.Spawned, st.JobBegin, st.JobPost)
	}
	if st.Ticker != 1 || st.WorkerIdle != 1 {
		fail("tag event worker anchors missing: ticker=%d idle=%d", st.Ticker, st.WorkerIdle)
	}
	if st.Clock == 0 || st.MapRange == 0 || st.IOPoints == 0 {
		fail("instrumentation found nothing: %+v", *st)
	}
	// extra files
	if *extra != "" {
		ents, err := os.ReadDir(*extra)
		if err != nil {
			fail("%v", err)
		}
		for _, e := range ents {
			if !e.IsDir() {
				continue
			}
			pkgdir := filepath.Join(*repo, strings.ReplaceAll(e.Name(), "__", "/"))
			files, _ := os.ReadDir(filepath.Join(*extra, e.Name()))
			for _, f := range files {
				name := f.Name()
				if !strings.HasSuffix(name, ".go") && !strings.HasSuffix(name, ".go.txt") {
					continue
				}
				src := filepath.Join(*extra, e.Name(), name)
				name = strings.TrimSuffix(name, ".txt")
				overlay[filepath.Join(pkgdir, name)] = src
			}
		}
	}
	writeOverlay(filepath.Join(*out, "overlay.json"), overlay)
	sj, _ := json.Marshal(st)
	os.WriteFile(filepath.Join(*out, "simgen.stats.json"), sj, 0o644)
	if *verbose {
		fmt.Fprintf(os.Stderr, "simgen: %s\n", sj)
	}
}

func writeOverlay(path string, m map[string]string) {
	b, _ := json.MarshalIndent(map[string]any{"Replace": m}, "", " ")
	if err := os.WriteFile(path, b, 0o644); err != nil {
		fail("%v", err)
	}
}

type rewriter struct {
	fset     *token.FileSet
	info     *types.Info
	pkg      string // short target path
	st       *stats
	usedRT   bool
	file     *ast.File
	relName  string
	timeName string
}

func rewritePackage(fset *token.FileSet, imp types.Importer, p *listPkg, short string, overlay map[string]string, st *stats) {
	var files []*ast.File
	var names []string
	all := append(append([]string{}, p.GoFiles...), p.CgoFiles...)
	sort.Strings(all)
	for _, f := range all {
		path := filepath.Join(p.Dir, f)
		af, err := parser.ParseFile(fset, path, nil, parser.ParseComments|parser.SkipObjectResolution)
		if err != nil {
			fail("parse %s: %v", path, err)
		}
		files = append(files, af)
		names = append(names, path)
	}
	info := &types.Info{
		Types:      map[ast.Expr]types.TypeAndValue{},
		Uses:       map[*ast.Ident]types.Object{},
		Defs:       map[*ast.Ident]types.Object{},
		Selections: map[*ast.SelectorExpr]*types.Selection{},
	}
	conf := types.Config{Importer: imp, FakeImportC: true, Error: func(err error) {}}
	if _, err := conf.Check(p.ImportPath, fset, files, info); err != nil {
		// cgo-free packages must type-check; report but continue only if harmless
		fail("type-check %s: %v", p.ImportPath, err)
	}
	for i, af := range files {
		rw := &rewriter{fset: fset, info: info, pkg: short, st: st, file: af, relName: filepath.Join(short, filepath.Base(names[i]))}
		for _, is := range af.Imports {
			if is.Path.Value == `"time"` {
				rw.timeName = "time"
				if is.Name != nil {
					rw.timeName = is.Name.Name
				}
			}
		}
		rw.rewriteFile()
		if !rw.usedRT {
			continue
		}
		addImport(af, simrtPath)
		if rw.timeName != "" && rw.timeName != "_" && rw.timeName != "." {
			// keep the time import used
			af.Decls = append(af.Decls, &ast.GenDecl{Tok: token.VAR, Specs: []ast.Spec{&ast.ValueSpec{
				Names: []*ast.Ident{ast.NewIdent("_")},
				Type:  &ast.SelectorExpr{X: ast.NewIdent(rw.timeName), Sel: ast.NewIdent("Duration")},
			}}})
		}
		var buf bytes.Buffer
		if err := format.Node(&buf, fset, af); err != nil {
			fail("print %s: %v", names[i], err)
		}
		dst := filepath.Join(*out, strings.ReplaceAll(short, "/", "__")+"__"+filepath.Base(names[i]))
		if err := os.WriteFile(dst, buf.Bytes(), 0o644); err != nil {
			fail("%v", err)
		}
		overlay[names[i]] = dst
	}
}

func addImport(f *ast.File, path string) {
	spec := &ast.ImportSpec{Path: &ast.BasicLit{Kind: token.STRING, Value: strconv.Quote(path)}}
	for _, d := range f.Decls {
		if gd, ok := d.(*ast.GenDecl); ok && gd.Tok == token.IMPORT {
			if gd.Lparen == token.NoPos {
				gd.Lparen = gd.Pos()
				gd.Rparen = gd.End()
			}
			gd.Specs = append(gd.Specs, spec)
			f.Imports = append(f.Imports, spec)
			return
		}
	}
	gd := &ast.GenDecl{Tok: token.IMPORT, Specs: []ast.Spec{spec}}
	f.Decls = append([]ast.Decl{gd}, f.Decls...)
	f.Imports = append(f.Imports, spec)
}

func (rw *rewriter) rt(name string, args ...ast.Expr) *ast.CallExpr {
	rw.usedRT = true
	return &ast.CallExpr{Fun: &ast.SelectorExpr{X: ast.NewIdent("simrt"), Sel: ast.NewIdent(name)}, Args: args}
}

func strLit(s string) ast.Expr { return &ast.BasicLit{Kind: token.STRING, Value: strconv.Quote(s)} }

func (rw *rewriter) rewriteFile() {
	// per function declarations (R1 job methods, worker)
	for _, d := range rw.file.Decls {
		fd, ok := d.(*ast.FuncDecl)
		if !ok || fd.Body == nil {
			continue
		}
		if rw.pkg == "internal/index/manager" && fd.Recv != nil {
			if jobMethods[fd.Name.Name] {
				rw.instrumentJob(fd)
			}
			if fd.Name.Name == "tagUpdateEventWorker" {
				rw.instrumentWorker(fd)
			}
		}
	}
	// expression-level rewrites (R3, R4, R6) and statement insertion (R1 spawn, R5)
	ast.Inspect(rw.file, func(n ast.Node) bool {
		switch x := n.(type) {
		case *ast.BlockStmt:
			x.List = rw.rewriteList(x.List)
		case *ast.CaseClause:
			x.Body = rw.rewriteList(x.Body)
		case *ast.CommClause:
			x.Body = rw.rewriteList(x.Body)
		case *ast.RangeStmt:
			rw.rewriteRange(x)
		}
		return true
	})
	rw.rewriteExprs()
}

// isPkgFunc reports whether call is pkgpath.name.
func (rw *rewriter) pkgFunc(call *ast.CallExpr) (string, string) {
	sel, ok := call.Fun.(*ast.SelectorExpr)
	if !ok {
		return "", ""
	}
	id, ok := sel.X.(*ast.Ident)
	if !ok {
		return "", ""
	}
	if pn, ok := rw.info.Uses[id].(*types.PkgName); ok {
		return pn.Imported().Path(), sel.Sel.Name
	}
	return "", ""
}

func (rw *rewriter) recvType(call *ast.CallExpr) (string, string) {
	sel, ok := call.Fun.(*ast.SelectorExpr)
	if !ok {
		return "", ""
	}
	s, ok := rw.info.Selections[sel]
	if !ok || s.Kind() != types.MethodVal {
		return "", ""
	}
	f, ok := s.Obj().(*types.Func)
	if !ok {
		return "", ""
	}
	sig := f.Type().(*types.Signature)
	if sig.Recv() == nil {
		return "", ""
	}
	return types.TypeString(sig.Recv().Type(), nil), sel.Sel.Name
}

func (rw *rewriter) typeStr(e ast.Expr) string {
	if tv, ok := rw.info.Types[e]; ok && tv.Type != nil {
		return types.TypeString(tv.Type, nil)
	}
	return ""
}

var osFuncs = map[string]bool{"Create": true, "OpenFile": true, "Remove": true, "Rename": true, "Truncate": true, "WriteFile": true, "RemoveAll": true}
var fileMethods = map[string]bool{"Write": true, "WriteString": true, "WriteAt": true, "Truncate": true, "Sync": true, "Close": true}
var bufMethods = map[string]bool{"Flush": true, "Write": true, "WriteByte": true, "WriteString": true}

func (rw *rewriter) isIOCall(call *ast.CallExpr) bool {
	if p, n := rw.pkgFunc(call); p != "" {
		switch p {
		case "os":
			return osFuncs[n]
		case "encoding/binary":
			if n == "Write" && len(call.Args) > 0 {
				t := rw.typeStr(call.Args[0])
				return t == "*os.File" || t == "*bufio.Writer"
			}
		case "io":
			if (n == "Copy" || n == "CopyN" || n == "WriteString") && len(call.Args) > 0 {
				t := rw.typeStr(call.Args[0])
				return t == "*os.File" || t == "*bufio.Writer"
			}
		}
		return false
	}
	if r, n := rw.recvType(call); r != "" {
		switch r {
		case "*os.File":
			return fileMethods[n]
		case "*bufio.Writer":
			return bufMethods[n]
		case "*encoding/json.Encoder":
			return n == "Encode"
		}
	}
	return false
}

// shallowHasIO looks for an I/O call in the parts of a statement that are
// evaluated when the statement is reached (not in nested blocks or closures).
func (rw *rewriter) shallowHasIO(s ast.Stmt) bool {
	found := false
	var visitExpr func(n ast.Node)
	visitExpr = func(n ast.Node) {
		if n == nil {
			return
		}
		ast.Inspect(n, func(m ast.Node) bool {
			if found {
				return false
			}
			switch y := m.(type) {
			case *ast.FuncLit:
				return false
			case *ast.CallExpr:
				if rw.isIOCall(y) {
					found = true
					return false
				}
			}
			return true
		})
	}
	switch x := s.(type) {
	case *ast.ExprStmt:
		visitExpr(x.X)
	case *ast.AssignStmt:
		for _, e := range x.Rhs {
			visitExpr(e)
		}
	case *ast.ReturnStmt:
		for _, e := range x.Results {
			visitExpr(e)
		}
	case *ast.IfStmt:
		if x.Init != nil {
			visitExpr(x.Init)
		}
		visitExpr(x.Cond)
	case *ast.SwitchStmt:
		if x.Init != nil {
			visitExpr(x.Init)
		}
		if x.Tag != nil {
			visitExpr(x.Tag)
		}
	case *ast.DeclStmt:
		visitExpr(x.Decl)
	case *ast.SendStmt:
		visitExpr(x.Value)
	}
	return found
}

func (rw *rewriter) rewriteList(list []ast.Stmt) []ast.Stmt {
	var outl []ast.Stmt
	for _, s := range list {
		inner := s
		if ls, ok := s.(*ast.LabeledStmt); ok {
			inner = ls.Stmt
		}
		if gs, ok := inner.(*ast.GoStmt); ok && rw.pkg == "internal/index/manager" {
			if sel, ok := gs.Call.Fun.(*ast.SelectorExpr); ok && jobMethods[sel.Sel.Name] {
				outl = append(outl, &ast.ExprStmt{X: rw.rt("Spawned", strLit(sel.Sel.Name))})
				rw.st.Spawned++
			}
		}
		if _, isLabeled := s.(*ast.LabeledStmt); !isLabeled && rw.shallowHasIO(s) {
			pos := rw.fset.Position(s.Pos())
			site := fmt.Sprintf("%s:%d", rw.relName, pos.Line)
			outl = append(outl, &ast.ExprStmt{X: rw.rt("IOPoint", strLit(site))})
			rw.st.IOPoints++
		}
		outl = append(outl, s)
		// a lock of the converter cache released by a statement (not by defer):
		// from here on another caller may get in before this one is finished
		if es, ok := inner.(*ast.ExprStmt); ok && rw.pkg == "internal/index/converters" {
			if call, ok := es.X.(*ast.CallExpr); ok {
				if r, n := rw.recvType(call); (r == "*sync.RWMutex" || r == "*sync.Mutex") && (n == "Unlock" || n == "RUnlock") {
					pos := rw.fset.Position(s.Pos())
					outl = append(outl, &ast.ExprStmt{X: rw.rt("Unlocked", strLit(fmt.Sprintf("%s:%d", rw.relName, pos.Line)))})
					rw.st.Unlocked++
				}
			}
		}
	}
	return outl
}

func isMgrJobs(e ast.Expr) bool {
	sel, ok := e.(*ast.SelectorExpr)
	return ok && sel.Sel.Name == "jobs"
}

func (rw *rewriter) instrumentJob(fd *ast.FuncDecl) {
	name := fd.Name.Name
	posts := 0
	var walk func(list []ast.Stmt) []ast.Stmt
	walk = func(list []ast.Stmt) []ast.Stmt {
		var outl []ast.Stmt
		for _, s := range list {
			if ss, ok := s.(*ast.SendStmt); ok && isMgrJobs(ss.Chan) {
				outl = append(outl, &ast.ExprStmt{X: rw.rt("JobPost", ast.NewIdent("__job"))})
				outl = append(outl, s)
				outl = append(outl, &ast.ExprStmt{X: rw.rt("Posted", ast.NewIdent("__job"))})
				posts++
				continue
			}
			// descend into nested blocks but not closures
			switch x := s.(type) {
			case *ast.BlockStmt:
				x.List = walk(x.List)
			case *ast.IfStmt:
				x.Body.List = walk(x.Body.List)
				if eb, ok := x.Else.(*ast.BlockStmt); ok {
					eb.List = walk(eb.List)
				}
			case *ast.ForStmt:
				x.Body.List = walk(x.Body.List)
			case *ast.RangeStmt:
				x.Body.List = walk(x.Body.List)
			}
			outl = append(outl, s)
		}
		return outl
	}
	fd.Body.List = walk(fd.Body.List)
	if name == "convertStreamJob" {
		// a gate between two rounds of conversions, at instants at which no
		// conversion is in flight (otherwise what the parked job has done would
		// depend on real time)
		for _, st := range fd.Body.List {
			fs, ok := st.(*ast.ForStmt)
			if !ok || fs.Cond == nil {
				continue
			}
			ids := map[string]bool{}
			ast.Inspect(fs.Cond, func(n ast.Node) bool {
				if id, ok := n.(*ast.Ident); ok {
					ids[id.Name] = true
				}
				return true
			})
			if !ids["freeJobsGlobal"] || !ids["maxJobsGlobal"] {
				continue
			}
			y := &ast.IfStmt{
				Cond: &ast.BinaryExpr{X: ast.NewIdent("freeJobsGlobal"), Op: token.EQL, Y: ast.NewIdent("maxJobsGlobal")},
				Body: &ast.BlockStmt{List: []ast.Stmt{&ast.ExprStmt{X: rw.rt("JobYield", ast.NewIdent("__job"))}}},
			}
			fs.Body.List = append([]ast.Stmt{y}, fs.Body.List...)
			rw.st.JobYield++
		}
	}
	if posts == 0 {
		fail("job method %s: no completion post (mgr.jobs <- ...) found outside closures", name)
	}
	args := []ast.Expr{strLit(name)}
	if fd.Type.Params != nil && len(fd.Type.Params.List) > 0 {
		p0 := fd.Type.Params.List[0]
		if id, ok := p0.Type.(*ast.Ident); ok && id.Name == "string" && len(p0.Names) > 0 && p0.Names[0].Name != "_" {
			args = append(args, ast.NewIdent(p0.Names[0].Name))
		}
	}
	begin := &ast.AssignStmt{Lhs: []ast.Expr{ast.NewIdent("__job")}, Tok: token.DEFINE, Rhs: []ast.Expr{rw.rt("JobBegin", args...)}}
	fd.Body.List = append([]ast.Stmt{begin}, fd.Body.List...)
	rw.st.JobBegin++
	rw.st.JobPost += posts
}

func (rw *rewriter) instrumentWorker(fd *ast.FuncDecl) {
	ast.Inspect(fd.Body, func(n ast.Node) bool {
		switch x := n.(type) {
		case *ast.CallExpr:
			if p, nm := rw.pkgFunc(x); p == "time" && nm == "NewTicker" {
				x.Fun = &ast.SelectorExpr{X: ast.NewIdent("simrt"), Sel: ast.NewIdent("NewTicker")}
				rw.usedRT = true
				rw.st.Ticker++
			}
		case *ast.ForStmt:
			if x.Cond == nil && x.Init == nil && rw.st.WorkerIdle == 0 {
				x.Body.List = append([]ast.Stmt{&ast.ExprStmt{X: rw.rt("WorkerIdle", strLit("tagworker"))}}, x.Body.List...)
				rw.st.WorkerIdle++
			}
		}
		return true
	})
}

func orderableKey(t types.Type) bool {
	b, ok := t.Underlying().(*types.Basic)
	if !ok {
		return false
	}
	switch b.Kind() {
	case types.String, types.Int, types.Uint, types.Uint64, types.Uint32, types.Uint16, types.Uint8, types.Int64, types.Int32:
		// named basic types are not handled by simrt.cmpKey's type switch
		_, named := t.(*types.Named)
		return !named
	}
	return false
}

func (rw *rewriter) rewriteRange(rs *ast.RangeStmt) {
	tv, ok := rw.info.Types[rs.X]
	if !ok || tv.Type == nil {
		return
	}
	mt, ok := tv.Type.Underlying().(*types.Map)
	if !ok {
		return
	}
	if rs.Key == nil && rs.Value == nil {
		return
	}
	if !orderableKey(mt.Key()) {
		rw.st.MapRangeSkipped++
		return
	}
	rs.X = rw.rt("Range", rs.X)
	rw.st.MapRange++
}

// rewriteExprs handles time.Now, runtime.NumCPU and the knobs.
// realClockFuncs keep the real clock: they run in goroutines the controller
// does not schedule (PCAP-over-IP endpoint reader), where a simulated
// time.Now would tick the simulated clock at unrepeatable moments.
var realClockFuncs = map[string]bool{"newPcapOverIPEndpoint": true}

func (rw *rewriter) rewriteExprs() {
	skip := map[ast.Node]bool{}
	for _, d := range rw.file.Decls {
		if fd, ok := d.(*ast.FuncDecl); ok && realClockFuncs[fd.Name.Name] && fd.Body != nil {
			ast.Inspect(fd.Body, func(n ast.Node) bool {
				if c, ok := n.(*ast.CallExpr); ok {
					skip[c] = true
				}
				return true
			})
		}
	}
	ast.Inspect(rw.file, func(n ast.Node) bool {
		switch x := n.(type) {
		case *ast.CallExpr:
			if skip[x] {
				return true
			}
			if p, nm := rw.pkgFunc(x); p == "time" && nm == "Now" {
				x.Fun = &ast.SelectorExpr{X: ast.NewIdent("simrt"), Sel: ast.NewIdent("Now")}
				rw.usedRT = true
				rw.st.Clock++
			} else if p == "os" && nm == "Create" && rw.pkg != "cmd/pkappa2" {
				// R8: disk error injection seam
				x.Fun = &ast.SelectorExpr{X: ast.NewIdent("simrt"), Sel: ast.NewIdent("OSCreate")}
				rw.usedRT = true
				rw.st.Creates++
				rw.file.Decls = append(rw.file.Decls, &ast.GenDecl{Tok: token.VAR, Specs: []ast.Spec{&ast.ValueSpec{
					Names:  []*ast.Ident{ast.NewIdent("_")},
					Values: []ast.Expr{&ast.SelectorExpr{X: ast.NewIdent("os"), Sel: ast.NewIdent("Args")}},
				}}})
			} else if r, n := rw.recvType(x); n == "Add" && strings.HasSuffix(r, "fsnotify.Watcher") && len(x.Args) == 1 {
				// in simulation the directory watchers watch nothing: file events are
				// delivered by the controller at steps of the schedule (inotify would
				// deliver them in real time)
				x.Args = []ast.Expr{x.Fun, x.Args[0]}
				x.Fun = &ast.SelectorExpr{X: ast.NewIdent("simrt"), Sel: ast.NewIdent("WatcherAdd")}
				rw.usedRT = true
				rw.st.Watchers++
			} else if p == "os" && nm == "OpenFile" && rw.pkg == "cmd/pkappa2" {
				// descriptor exhaustion seam of the upload handler
				x.Fun = &ast.SelectorExpr{X: ast.NewIdent("simrt"), Sel: ast.NewIdent("OSOpenFile")}
				rw.usedRT = true
				rw.st.Opens++
			} else if p == "runtime" && nm == "NumCPU" {
				x.Fun = &ast.SelectorExpr{X: ast.NewIdent("simrt"), Sel: ast.NewIdent("NumCPU")}
				rw.usedRT = true
				rw.st.NumCPU++
				// keep the runtime import used
				rw.file.Decls = append(rw.file.Decls, &ast.GenDecl{Tok: token.VAR, Specs: []ast.Spec{&ast.ValueSpec{
					Names:  []*ast.Ident{ast.NewIdent("_")},
					Values: []ast.Expr{&ast.SelectorExpr{X: ast.NewIdent("runtime"), Sel: ast.NewIdent("GOOS")}},
				}}})
			}
		case *ast.BinaryExpr:
			if rw.pkg == "internal/index/builder" {
				if bl, ok := x.Y.(*ast.BasicLit); ok && bl.Kind == token.INT && strings.ReplaceAll(bl.Value, "_", "") == "100000" {
					if id, ok := x.X.(*ast.Ident); ok && id.Name == "nPacketsAfterSnapshot" {
						x.Y = rw.rt("GetSnapshotEvery")
						rw.st.KnobSnap++
					}
				}
			}
			if rw.pkg == "internal/index/converters" {
				if id, ok := x.Y.(*ast.Ident); ok && id.Name == "cleanupMinFreeSize" {
					x.Y = rw.rt("GetCleanupMinFree")
					rw.st.KnobCleanup++
				}
			}
		}
		return true
	})
}
