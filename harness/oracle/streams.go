// Package oracle holds the reference computations the checks compare the
// service against: visible-stream signatures, one-shot reference import and
// comparison with netsim ground truth (DESIGN §3.2).
package oracle

import (
	"bytes"
	"crypto/sha256"
	"encoding/hex"
	"fmt"
	"os"
	"path/filepath"
	"sort"
	"strings"

	"github.com/spq/pkappa2/internal/index"
	"github.com/spq/pkappa2/internal/index/builder"
	"github.com/spq/pkappa2/verif/netsim"
)

type PktRef struct {
	File  string
	Index uint64
	Dir   int
	TimeN int64
}

type StreamSig struct {
	ID         uint64
	Proto      string
	ClientIP   string
	ServerIP   string
	ClientPort uint16
	ServerPort uint16
	Data       [2][]byte
	Dirs       []int
	Packets    []PktRef
	FirstNS    int64
	LastNS     int64
	CBytes     uint64
	SBytes     uint64
	Chunks     int
}

func (s *StreamSig) FirstKey() string {
	if len(s.Packets) == 0 {
		return ""
	}
	return fmt.Sprintf("%s#%d", s.Packets[0].File, s.Packets[0].Index)
}

// ContentKey identifies the stream up to numbering.
func (s *StreamSig) ContentKey() string {
	h := sha256.New()
	fmt.Fprintf(h, "%s|%s:%d|%s:%d|", s.Proto, s.ClientIP, s.ClientPort, s.ServerIP, s.ServerPort)
	fmt.Fprintf(h, "%d|%d|", len(s.Data[0]), len(s.Data[1]))
	h.Write(s.Data[0])
	h.Write([]byte{0})
	h.Write(s.Data[1])
	fmt.Fprintf(h, "|%v|", s.Dirs)
	for _, p := range s.Packets {
		fmt.Fprintf(h, "%s#%d/%d@%d,", p.File, p.Index, p.Dir, p.TimeN)
	}
	return hex.EncodeToString(h.Sum(nil)[:12])
}

func SigOf(s *index.Stream) (*StreamSig, error) {
	sig := &StreamSig{
		ID: s.ID(), Proto: s.Protocol(), ClientIP: s.ClientHostIP(), ServerIP: s.ServerHostIP(),
		ClientPort: s.ClientPort, ServerPort: s.ServerPort,
		FirstNS: s.FirstPacket().UnixNano(), LastNS: s.LastPacket().UnixNano(),
		CBytes: s.ClientBytes, SBytes: s.ServerBytes,
	}
	data, err := s.Data()
	if err != nil {
		return nil, fmt.Errorf("stream %d: Data: %w", s.ID(), err)
	}
	sig.Chunks = len(data)
	for _, d := range data {
		dir := int(d.Direction)
		sig.Data[dir] = append(sig.Data[dir], d.Content...)
		if len(d.Content) == 0 {
			continue
		}
		if n := len(sig.Dirs); n == 0 || sig.Dirs[n-1] != dir {
			sig.Dirs = append(sig.Dirs, dir)
		}
	}
	pkts, err := s.Packets()
	if err != nil {
		return nil, fmt.Errorf("stream %d: Packets: %w", s.ID(), err)
	}
	for _, p := range pkts {
		sig.Packets = append(sig.Packets, PktRef{File: p.PcapFilename, Index: p.PcapIndex, Dir: int(p.Direction), TimeN: p.Timestamp.UnixNano()})
	}
	return sig, nil
}

// Visible enumerates the visible streams of a reader stack: newest file wins.
func Visible(readers []*index.Reader) ([]*StreamSig, error) {
	var out []*StreamSig
	seen := map[uint64]bool{}
	for i := len(readers) - 1; i >= 0; i-- {
		var ids []uint64
		err := readers[i].AllStreams(func(s *index.Stream) error {
			if seen[s.ID()] {
				return nil
			}
			sig, err := SigOf(s)
			if err != nil {
				return err
			}
			out = append(out, sig)
			ids = append(ids, s.ID())
			return nil
		})
		if err != nil {
			return nil, err
		}
		for _, id := range ids {
			if seen[id] {
				return nil, fmt.Errorf("stream id %d stored twice in %s", id, readers[i].Filename())
			}
			seen[id] = true
		}
	}
	sort.Slice(out, func(i, j int) bool { return out[i].ID < out[j].ID })
	return out, nil
}

type Dirs struct {
	Base, Pcap, Index, Snapshot, State, Converter string
}

func MakeDirs(base string) (Dirs, error) {
	d := Dirs{Base: base, Pcap: filepath.Join(base, "pcap") + "/", Index: filepath.Join(base, "index") + "/", Snapshot: filepath.Join(base, "snapshot") + "/", State: filepath.Join(base, "state") + "/", Converter: filepath.Join(base, "converter") + "/"}
	for _, p := range []string{d.Pcap, d.Index, d.Snapshot, d.State, d.Converter} {
		if err := os.MkdirAll(p, 0o755); err != nil {
			return d, err
		}
	}
	return d, nil
}

// Importer drives the real builder the way the manager does.
type Importer struct {
	D       Dirs
	B       *builder.Builder
	Readers []*index.Reader
}

func NewImporter(d Dirs) (*Importer, error) {
	b, err := builder.New(d.Pcap, d.Index, d.Snapshot, nil)
	if err != nil {
		return nil, err
	}
	return &Importer{D: d, B: b}, nil
}

// Restart re-creates the builder from the directories and re-opens all index
// files in name order (what manager.New does).
func (im *Importer) Restart() error {
	im.Close()
	b, err := builder.New(im.D.Pcap, im.D.Index, im.D.Snapshot, nil)
	if err != nil {
		return err
	}
	im.B = b
	ents, err := os.ReadDir(im.D.Index)
	if err != nil {
		return err
	}
	for _, e := range ents {
		if !strings.HasSuffix(e.Name(), ".idx") {
			continue
		}
		r, err := index.NewReader(filepath.Join(im.D.Index, e.Name()))
		if err != nil {
			continue
		}
		im.Readers = append(im.Readers, r)
	}
	return nil
}

func (im *Importer) Close() {
	for _, r := range im.Readers {
		r.Close()
	}
	im.Readers = nil
}

type ImportResult struct {
	Processed int
	NewIDs    uint64
	Created   int
	Updated   []uint
	Reset     []uint
	Added     []uint
}

// Import feeds one batch; loops like the manager does until all files of the
// batch were processed.
func (im *Importer) Import(files []string) ([]ImportResult, error) {
	var res []ImportResult
	for len(files) > 0 {
		n, newIDs, created, upd, rst, add, err := im.B.FromPcap(im.D.Pcap, files, im.Readers)
		if err != nil {
			return res, err
		}
		r := ImportResult{Processed: n, NewIDs: newIDs, Created: len(created)}
		if upd != nil {
			for i := uint(0); upd.Next(&i); i++ {
				r.Updated = append(r.Updated, i)
			}
			for i := uint(0); rst.Next(&i); i++ {
				r.Reset = append(r.Reset, i)
			}
			for i := uint(0); add.Next(&i); i++ {
				r.Added = append(r.Added, i)
			}
		}
		im.Readers = append(im.Readers, created...)
		res = append(res, r)
		if n <= 0 {
			return res, fmt.Errorf("FromPcap processed %d files", n)
		}
		files = files[n:]
	}
	return res, nil
}

// MatchTruth compares visible streams with ground truth for the
// conversations selected by want. Returns a description of the first
// mismatch or "".
func MatchTruth(vis []*StreamSig, capt *netsim.Capture, want func(t *netsim.Truth) bool, strictExtra bool) string {
	byTuple := map[string][]*StreamSig{}
	key := func(proto, cip string, cp uint16, sip string, sp uint16) string {
		return fmt.Sprintf("%s|%s|%d|%s|%d", proto, cip, cp, sip, sp)
	}
	for _, s := range vis {
		k := key(s.Proto, s.ClientIP, s.ClientPort, s.ServerIP, s.ServerPort)
		byTuple[k] = append(byTuple[k], s)
	}
	matched := map[*StreamSig]bool{}
	for i := range capt.Truth {
		t := &capt.Truth[i]
		if !want(t) {
			continue
		}
		k := key(t.Proto, t.ClientIP, t.ClientPort, t.ServerIP, t.ServerPort)
		cands := byTuple[k]
		if len(cands) == 0 {
			// maybe the direction was assigned the other way round
			rk := key(t.Proto, t.ServerIP, t.ServerPort, t.ClientIP, t.ClientPort)
			if len(byTuple[rk]) != 0 {
				return fmt.Sprintf("conv %d (%s %s:%d->%s:%d): endpoints swapped (server reported as client)", t.Conv, t.Proto, t.ClientIP, t.ClientPort, t.ServerIP, t.ServerPort)
			}
			return fmt.Sprintf("conv %d (%s %s:%d->%s:%d): no stream", t.Conv, t.Proto, t.ClientIP, t.ClientPort, t.ServerIP, t.ServerPort)
		}
		if len(cands) > 1 {
			return fmt.Sprintf("conv %d: %d streams for one connection (ids %d,%d,..)", t.Conv, len(cands), cands[0].ID, cands[1].ID)
		}
		s := cands[0]
		matched[s] = true
		for d := 0; d < 2; d++ {
			if !bytes.Equal(s.Data[d], t.Data[d]) {
				return fmt.Sprintf("conv %d stream %d: dir %d payload differs: got %d bytes want %d bytes (first diff at %d)", t.Conv, s.ID, d, len(s.Data[d]), len(t.Data[d]), firstDiff(s.Data[d], t.Data[d]))
			}
		}
		if fmt.Sprint(s.Dirs) != fmt.Sprint(t.Dirs) {
			return fmt.Sprintf("conv %d stream %d: direction sequence %v want %v", t.Conv, s.ID, s.Dirs, t.Dirs)
		}
		if s.CBytes != uint64(len(t.Data[0])) || s.SBytes != uint64(len(t.Data[1])) {
			return fmt.Sprintf("conv %d stream %d: byte counters %d/%d want %d/%d", t.Conv, s.ID, s.CBytes, s.SBytes, len(t.Data[0]), len(t.Data[1]))
		}
	}
	if strictExtra {
		for _, s := range vis {
			if !matched[s] && (len(s.Data[0]) > 0 || len(s.Data[1]) > 0) {
				return fmt.Sprintf("extra stream %d (%s %s:%d->%s:%d) carries %d+%d payload bytes", s.ID, s.Proto, s.ClientIP, s.ClientPort, s.ServerIP, s.ServerPort, len(s.Data[0]), len(s.Data[1]))
			}
		}
	}
	return ""
}

func firstDiff(a, b []byte) int {
	n := len(a)
	if len(b) < n {
		n = len(b)
	}
	for i := 0; i < n; i++ {
		if a[i] != b[i] {
			return i
		}
	}
	return n
}

// SameUpToNumbering compares two visible-stream sets ignoring stream IDs.
func SameUpToNumbering(a, b []*StreamSig) string {
	ma := map[string]int{}
	for _, s := range a {
		ma[s.ContentKey()]++
	}
	for _, s := range b {
		k := s.ContentKey()
		if ma[k] == 0 {
			return fmt.Sprintf("stream %d (%s %s:%d->%s:%d, %d+%d bytes, %d packets) has no counterpart", s.ID, s.Proto, s.ClientIP, s.ClientPort, s.ServerIP, s.ServerPort, len(s.Data[0]), len(s.Data[1]), len(s.Packets))
		}
		ma[k]--
	}
	for _, s := range a {
		k := s.ContentKey()
		if ma[k] > 0 {
			return fmt.Sprintf("reference stream %d (%s %s:%d->%s:%d, %d+%d bytes, %d packets) is missing", s.ID, s.Proto, s.ClientIP, s.ClientPort, s.ServerIP, s.ServerPort, len(s.Data[0]), len(s.Data[1]), len(s.Packets))
		}
	}
	return ""
}

// ConnKey names a connection irrespective of which end is taken as the client.
func ConnKey(proto, ipA string, portA uint16, ipB string, portB uint16) string {
	a, b := fmt.Sprintf("%s:%d", ipA, portA), fmt.Sprintf("%s:%d", ipB, portB)
	if b < a {
		a, b = b, a
	}
	return proto + "|" + a + "|" + b
}

func (s *StreamSig) ConnKey() string {
	return ConnKey(s.Proto, s.ClientIP, s.ClientPort, s.ServerIP, s.ServerPort)
}
