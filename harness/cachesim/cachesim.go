// Package cachesim drives the real converter cache file with seeded
// operation histories against a map model, with crash points at every byte
// of the last appended record (DESIGN §4 C15).
package cachesim

import (
	"bytes"
	"encoding/json"
	"fmt"
	"io"
	"log"
	"os"
	"path/filepath"
	"sort"
	"strings"
	"time"

	"github.com/spq/pkappa2/internal/index"
	"github.com/spq/pkappa2/internal/index/converters"
	"github.com/spq/pkappa2/verif/sim"
	"github.com/spq/pkappa2/verif/simrt"
)

type Chunk struct {
	Dir  int    `json:"d"`
	Len  int    `json:"n"`
	Seed uint32 `json:"s"`
	DtUS int64  `json:"dt"`
	CT   string `json:"ct,omitempty"`
}

type Op struct {
	K      string   `json:"k"` // store | invalidate | reset | reopen
	ID     uint64   `json:"id,omitempty"`
	IDs    []uint64 `json:"ids,omitempty"`
	Chunks []Chunk  `json:"chunks,omitempty"`
}

type Plan struct {
	Prop       string `json:"prop"`
	Seed       uint64 `json:"seed"`
	Run        uint64 `json:"run"`
	Ops        []Op   `json:"ops"`
	CleanupMin int64  `json:"cleanup_min"`
	Truncate   bool   `json:"truncate"` // enumerate truncation points after every store
	ZeroLen    bool   `json:"zero_len,omitempty"`
	// Crash: kill states at every I/O point of every operation (and torn
	// writes between two I/O points), each reopened, judged and continued with
	// the next operations of the plan ("second life")
	// DiskFull: while operation number DiskFullOp (a store) runs, the file
	// cannot grow beyond DiskFullAt bytes (RLIMIT_FSIZE): the store fails
	DiskFullOp int    `json:"disk_full_op,omitempty"`
	DiskFullAt int64  `json:"disk_full_at,omitempty"`
	Crash      bool   `json:"crash,omitempty"`
	CrashSeed  uint64 `json:"crash_seed,omitempty"`
}

type Engine struct{}

func payload(c Chunk) []byte {
	b := make([]byte, c.Len)
	x := c.Seed*2654435761 + 12345
	for i := range b {
		x = x*1664525 + 1013904223
		b[i] = byte(x >> 24)
	}
	return b
}

func (Engine) Generate(prop, tier string, seed, run uint64) json.RawMessage {
	r := sim.NewRand(seed, run)
	p := Plan{Prop: prop, Seed: seed, Run: run, CleanupMin: 16 << 20, Truncate: true}
	if r.IntN(4) != 0 {
		p.CleanupMin = int64(32 + r.IntN(3000))
	}
	p.ZeroLen = r.IntN(10) == 0
	p.Crash = r.IntN(3) != 0
	p.CrashSeed = r.Uint64()
	if prop == "C12" {
		// C12 judges every kill state of the cache file, also those inside a
		// compaction; the byte-wise truncation series is C15's
		p.Crash, p.Truncate = true, false
	}
	n := 3 + r.IntN(25)
	// swarm: per-run operation mix (store-heavy, invalidate-heavy, reset-heavy)
	wInv, wReset := 15, 16
	switch r.IntN(4) {
	case 0:
		wInv = 17 // many invalidations: free space in front of live records
	case 1:
		wReset = 17 // resets followed by more stores
	}
	cts := []string{"", "", "", "text/plain", "application/json", "x"}
	if r.IntN(5) == 0 {
		// a content type whose length needs a two-byte prefix
		cts = append(cts, "multipart/form-data; boundary="+strings.Repeat("-", 100+r.IntN(200))+"x")
	}
	// a quarter of the runs follow a phase script instead of a uniform mix:
	// fill, (reset), fill more than before, free a contiguous group of records
	// (the oldest or the youngest), store again with a low compaction
	// threshold — in-process compaction with free space in front of, behind
	// and between live records, also right after a reset
	var script []string
	if r.IntN(4) == 0 {
		p.CleanupMin = int64(32 + r.IntN(400))
		for i, m := 0, 1+r.IntN(4); i < m; i++ {
			script = append(script, "store")
		}
		if r.IntN(10) < 7 {
			script = append(script, "reset")
		}
		for i, m := 0, 4+r.IntN(7); i < m; i++ {
			script = append(script, "store-new")
		}
		script = append(script, []string{"free-old", "free-young", "free-young", "invalidate"}[r.IntN(4)])
		for i, m := 0, 1+r.IntN(3); i < m; i++ {
			script = append(script, []string{"store", "store", "invalidate", "reopen"}[r.IntN(4)])
		}
		script = append(script, "store")
		n = len(script)
	}
	var order []uint64 // ids in the order in which they were last stored
	touch := func(id uint64) {
		for i, o := range order {
			if o == id {
				order = append(order[:i], order[i+1:]...)
				break
			}
		}
		order = append(order, id)
	}
	for i := 0; i < n; i++ {
		k := r.IntN(20)
		storeID := uint64(r.IntN(8))
		if script != nil {
			switch script[i] {
			case "store":
				k = 0
			case "store-new":
				k = 0
				storeID = uint64(len(order) % 8)
			case "reset":
				k = wInv
				if wReset <= wInv {
					wReset = wInv + 1
				}
				order = nil
			case "reopen":
				k = 19
			case "invalidate":
				k = 12
			case "free-old", "free-young":
				m := 1 + r.IntN(1+len(order)/2)
				if m > len(order) {
					m = len(order)
				}
				op := Op{K: "invalidate"}
				if script[i] == "free-old" {
					op.IDs = append(op.IDs, order[:m]...)
				} else {
					op.IDs = append(op.IDs, order[len(order)-m:]...)
				}
				p.Ops = append(p.Ops, op)
				continue
			}
		}
		switch {
		case k < 12:
			op := Op{K: "store", ID: storeID}
			touch(storeID)
			nc := r.IntN(7)
			if r.IntN(10) == 0 {
				nc = 9 + r.IntN(12) // content type bitmask beyond one byte
			}
			if r.IntN(25) == 0 {
				nc = 57 + r.IntN(80) // content type bitmask of eight bytes and more
			}
			dir := r.IntN(2)
			for j := 0; j < nc; j++ {
				c := Chunk{Dir: dir, Seed: r.Uint32(), DtUS: int64(r.IntN(3)) * int64(r.IntN(2_000_000)), CT: cts[r.IntN(len(cts))]}
				if r.IntN(12) == 0 {
					// a converter may report any time: before the stream's first packet, or going backwards
					c.DtUS = -int64(1 + r.IntN(5_000_000))
				}
				switch q := r.IntN(10); {
				case q < 6:
					c.Len = 1 + r.IntN(40)
				case q < 9:
					c.Len = 100 + r.IntN(600)
				default:
					c.Len = 1
				}
				if p.ZeroLen && r.IntN(5) == 0 {
					c.Len = 0
				}
				op.Chunks = append(op.Chunks, c)
				if r.IntN(3) != 0 {
					dir = 1 - dir
				}
			}
			p.Ops = append(p.Ops, op)
		case k < wInv:
			op := Op{K: "invalidate"}
			for j := 0; j < 1+r.IntN(3); j++ {
				op.IDs = append(op.IDs, uint64(r.IntN(9)))
			}
			p.Ops = append(p.Ops, op)
		case k < wReset:
			p.Ops = append(p.Ops, Op{K: "reset"})
		default:
			p.Ops = append(p.Ops, Op{K: "reopen"})
		}
	}
	if r.IntN(3) == 0 {
		// disk full during one of the stores (not the first: there must be something to damage)
		var stores []int
		for i, op := range p.Ops {
			if op.K == "store" && i > 0 {
				stores = append(stores, i)
			}
		}
		if len(stores) > 0 {
			p.DiskFullOp = 1 + stores[r.IntN(len(stores))]
			p.DiskFullAt = int64(8 + r.IntN(1500))
		}
	}
	return sim.MustJSON(p)
}

type mchunk struct {
	dir  int
	data []byte
	t    time.Time
	ct   string
}

func nonEmpty(cs []mchunk) []mchunk {
	var out []mchunk
	for _, c := range cs {
		if len(c.data) > 0 {
			out = append(out, c)
		}
	}
	return out
}

var base = time.Unix(1_600_000_000, 0).UTC()

func compare(c *converters.VerifCache, model map[uint64][]mchunk, what string) string {
	if n := c.StreamCount(); n != uint64(len(model)) {
		return fmt.Sprintf("count|%s: StreamCount=%d, model has %d streams", what, n, len(model))
	}
	for id := uint64(0); id < 10; id++ {
		want, ok := model[id]
		if msg := compareID(c, id, want, ok, what); msg != "" {
			return msg
		}
	}
	return ""
}

// compareID compares everything the cache says about one stream with the
// expected chunk list (ok=false: the stream must be absent).
func compareID(c *converters.VerifCache, id uint64, want []mchunk, ok bool, what string) string {
	if c.Contains(id) != ok {
		return fmt.Sprintf("contains|%s: Contains(%d)=%v, model %v", what, id, !ok, ok)
	}
	data, cb, sb, err := c.Data(id, base)
	if err != nil {
		return fmt.Sprintf("read-error|%s: Data(%d): %v", what, id, err)
	}
	if !ok {
		if data != nil {
			return fmt.Sprintf("ghost|%s: Data(%d) returns %d chunks for a stream that was never stored or was invalidated", what, id, len(data))
		}
		d2, _, _, _, found, err := c.DataForSearch(id)
		if err != nil || found || len(d2[0])+len(d2[1]) != 0 {
			return fmt.Sprintf("ghost|%s: DataForSearch(%d) found=%v err=%v", what, id, found, err)
		}
		return ""
	}
	if data == nil {
		return fmt.Sprintf("lost|%s: Data(%d) returns nothing, model has %d chunks", what, id, len(want))
	}
	ne := nonEmpty(want)
	var got []index.Data
	for _, d := range data {
		if len(d.Content) > 0 {
			got = append(got, d)
		}
	}
	if len(got) != len(ne) {
		return fmt.Sprintf("chunks|%s: stream %d has %d non-empty chunks, stored %d", what, id, len(got), len(ne))
	}
	var wc, ws uint64
	for i := range ne {
		g, w := got[i], ne[i]
		if int(g.Direction) != w.dir {
			return fmt.Sprintf("direction|%s: stream %d chunk %d direction %d, stored %d", what, id, i, g.Direction, w.dir)
		}
		if !bytes.Equal(g.Content, w.data) {
			return fmt.Sprintf("bytes|%s: stream %d chunk %d content differs (%d vs %d bytes)", what, id, i, len(g.Content), len(w.data))
		}
		if !g.Time.Equal(w.t) {
			return fmt.Sprintf("time|%s: stream %d chunk %d time %v, stored %v", what, id, i, g.Time.Sub(base), w.t.Sub(base))
		}
		if g.ContentType != w.ct {
			return fmt.Sprintf("content-type|%s: stream %d chunk %d content type %q, stored %q", what, id, i, g.ContentType, w.ct)
		}
		if w.dir == 0 {
			wc += uint64(len(w.data))
		} else {
			ws += uint64(len(w.data))
		}
	}
	if cb != wc || sb != ws {
		return fmt.Sprintf("byte-counts|%s: stream %d byte counts %d/%d, stored %d/%d", what, id, cb, sb, wc, ws)
	}
	d2, sizes, cb2, sb2, found, err := c.DataForSearch(id)
	if err != nil || !found {
		return fmt.Sprintf("search-read|%s: DataForSearch(%d) found=%v err=%v", what, id, found, err)
	}
	var wantD [2][]byte
	wantSizes := [][2]int{{0, 0}}
	for _, w := range ne {
		wantD[w.dir] = append(wantD[w.dir], w.data...)
		wantSizes = append(wantSizes, [2]int{len(wantD[0]), len(wantD[1])})
	}
	if !bytes.Equal(d2[0], wantD[0]) || !bytes.Equal(d2[1], wantD[1]) || cb2 != wc || sb2 != ws {
		return fmt.Sprintf("search-bytes|%s: DataForSearch(%d) payload differs", what, id)
	}
	if fmt.Sprint(sizes) != fmt.Sprint(wantSizes) {
		return fmt.Sprintf("search-layout|%s: DataForSearch(%d) chunk layout %v, stored %v", what, id, sizes, wantSizes)
	}
	return ""
}

func timeStep(ch Chunk) time.Duration { return time.Duration(ch.DtUS) * time.Microsecond }

func copyModel(m map[uint64][]mchunk) map[uint64][]mchunk {
	c := make(map[uint64][]mchunk, len(m))
	for k, v := range m {
		c[k] = v
	}
	return c
}

func hasZero(cs []Chunk) bool {
	for _, c := range cs {
		if c.Len == 0 {
			return true
		}
	}
	return false
}

func (Engine) Execute(planJSON json.RawMessage, scratch string) (res sim.RunResult) {
	var p Plan
	if err := json.Unmarshal(planJSON, &p); err != nil {
		res.Infra = "bad plan: " + err.Error()
		return
	}
	res.Seed, res.Run = p.Seed, p.Run
	log.SetOutput(io.Discard)
	simrt.Start(p.Seed, time.Unix(1_700_000_000, 0))
	simrt.SetKnobs(100_000, p.CleanupMin)
	defer simrt.Stop()
	os.MkdirAll(scratch, 0o755)
	path := filepath.Join(scratch, "cache.cidx")
	zeroSeen := false
	oracleName := "cache"
	if p.Prop == "C12" {
		oracleName = "restart-cache"
	}
	viol := func(msg string) {
		if res.Viol != nil {
			return
		}
		kind, rest, _ := cutTwo(msg)
		sig := kind
		if zeroSeen {
			sig = "zero-length/" + kind
		}
		v := &sim.Violation{Property: p.Prop, Oracle: oracleName, Signature: sig, Message: rest}
		if sim.Known[v.Key()] {
			res.Count("known:"+v.Key(), 1)
			if res.KnownMsg == nil {
				res.KnownMsg = map[string]string{}
			}
			if _, ok := res.KnownMsg[v.Key()]; !ok {
				res.KnownMsg[v.Key()] = rest
			}
			return
		}
		res.Viol = v
	}
	defer func() {
		if e := recover(); e != nil {
			res.Viol = &sim.Violation{Property: p.Prop, Oracle: oracleName, Signature: "panic", Message: fmt.Sprint(e)}
		}
	}()
	c, err := converters.VerifNewCacheFile(path)
	if err != nil {
		res.Infra = "cannot create cache file: " + err.Error()
		return
	}
	defer func() {
		if c != nil {
			c.Close()
		}
	}()
	model := map[uint64][]mchunk{}
	knownDead := false // a known finding made the file state diverge: stop judging this run
	crashRng := sim.NewRand(p.CrashSeed, 5)
	for oi, op := range p.Ops {
		what := fmt.Sprintf("after op %d (%s)", oi, op.K)
		var cr *crashRec
		var before map[uint64][]mchunk
		if p.Crash && !knownDead {
			before = copyModel(model)
			cr = newCrashRec(path, crashRng)
			simrt.SetIOHook(cr.hook)
			simrt.ArmIO(true)
		}
		endCrash := func() {
			if cr != nil && simrt.IOArmed() {
				simrt.ArmIO(false)
				cr.observe("end of operation")
			}
		}
		switch op.K {
		case "store":
			var data []index.Data
			var mc []mchunk
			t := base
			for _, ch := range op.Chunks {
				t = t.Add(timeStep(ch))
				b := payload(ch)
				data = append(data, index.Data{Direction: index.Direction(ch.Dir), Content: b, Time: t, ContentType: ch.CT})
				mc = append(mc, mchunk{ch.Dir, b, t, ch.CT})
			}
			if hasZero(op.Chunks) {
				zeroSeen = true
				res.Count("probe_zero_length_chunk", 1)
			}
			sizeBefore, _, _ := c.Sizes()
			pre, _ := os.ReadFile(path)
			prevModel := model[op.ID]
			_, hadPrev := model[op.ID]
			full := p.DiskFullOp == oi+1
			if full {
				simrt.SetFsizeLimit(p.DiskFullAt)
			}
			err := c.SetData(op.ID, base, data)
			if full {
				simrt.SetFsizeLimit(0)
			}
			if err != nil && full {
				// the disk was full: the store failed and said so. Every other stream
				// must still read as before; this stream as before or not at all.
				res.Count("fault_disk_full_during_store", 1)
				endCrash()
				cr = nil
				m2 := copyModel(model)
				if !c.Contains(op.ID) {
					delete(m2, op.ID)
				}
				if msg := compare(c, m2, what+" (the store failed: disk full)"); msg != "" {
					viol("diskfull-" + msg)
					if res.Viol != nil {
						return
					}
					knownDead = true
				}
				model = m2
				continue
			}
			if err != nil {
				viol(fmt.Sprintf("store-error|%s: SetData(%d): %v", what, op.ID, err))
				return
			}
			endCrash()
			model[op.ID] = mc
			res.Count("op_store", 1)
			sizeAfter, _, _ := c.Sizes()
			if sizeAfter < sizeBefore {
				res.Count("probe_compaction", 1)
			}
			if msg := compare(c, model, what); msg != "" {
				viol(msg)
				if res.Viol != nil {
					return
				}
				knownDead = true
			}
			if p.Truncate && !knownDead && sizeAfter > sizeBefore && (cr == nil || crashRng.IntN(2) == 0) {
				// crash while appending: the file may end at any byte of the new record
				full, err := os.ReadFile(path)
				if err != nil || int64(len(full)) != sizeAfter {
					viol(fmt.Sprintf("size|%s: file has %d bytes, the cache accounts for %d", what, len(full), sizeAfter))
					if res.Viol != nil {
						return
					}
					break
				}
				// in-place writes to older records (marking a replaced record dead)
				// happen after the append; a compaction before the append rewrites
				// the prefix, its crash states are not byte-enumerated here
				if int64(len(pre)) != sizeBefore {
					break
				}
				diff := 0
				for i := range pre {
					if pre[i] != full[i] {
						diff++
					}
				}
				if diff > 8 {
					res.Count("probe_compaction_before_append", 1)
					break
				}
				sv := simrt.Save()
				// every cut position inside the structured parts of the record (header and
				// chunk sizes at its start, times and content types at its end); inside a
				// long payload body every cut is the same case ("payload ends early") and
				// a seeded sample is taken, so that the budget goes into more histories
				recLen := sizeAfter - sizeBefore
				for cut := sizeBefore; cut < sizeAfter; cut++ {
					if off := cut - sizeBefore; recLen > 320 && off >= 128 && off < recLen-128 && crashRng.IntN(int(recLen-256)) >= 24 {
						continue
					}
					tp := filepath.Join(scratch, "trunc.cidx")
					os.WriteFile(tp, append(append([]byte(nil), pre...), full[sizeBefore:cut]...), 0o644)
					tc, err := converters.VerifNewCacheFile(tp)
					res.Count("crash_states_restarted", 1)
					if err != nil {
						viol(fmt.Sprintf("truncated-open|%s: file cut to %d of %d bytes (record starts at %d) does not open: %v", what, cut, sizeAfter, sizeBefore, err))
						if res.Viol != nil {
							simrt.Restore(sv)
							return
						}
						break
					}
					// the in-flight store may be absent (older value or nothing), everything else must be there
					m2 := map[uint64][]mchunk{}
					for k, v := range model {
						m2[k] = v
					}
					if hadPrev {
						m2[op.ID] = prevModel
					} else {
						delete(m2, op.ID)
					}
					msg := compare(tc, m2, fmt.Sprintf("%s, file cut to %d of %d bytes", what, cut, sizeAfter))
					tc.Close()
					if msg != "" {
						viol("truncated-" + msg)
						if res.Viol != nil {
							simrt.Restore(sv)
							return
						}
						break
					}
				}
				simrt.Restore(sv)
				res.Count("fault_truncation_series", 1)
			}
		case "invalidate":
			// a second caller stores one of the streams again, should the
			// invalidation let go of the cache's lock before it is done (it does
			// not on the shipped code): whichever of the two is taken to come
			// first, what the running process answers afterwards must be what a
			// restart finds in the file
			var sid uint64
			var sdata []index.Data
			var smc []mchunk
			sfired := false
			var serr error
			if !p.Crash && len(op.IDs) > 0 {
				sid = op.IDs[oi%len(op.IDs)]
				if _, cached := model[sid]; cached {
					ob := []byte(fmt.Sprintf("stored again by a second caller %d/%d ", oi, sid))
					sdata = []index.Data{{Direction: index.DirectionClientToServer, Content: ob, Time: base.Add(time.Second)}}
					smc = []mchunk{{0, ob, base.Add(time.Second), ""}}
					simrt.SetUnlockHook(func(site string) {
						if sfired {
							return
						}
						sfired = true
						res.Count("fault_second_caller_at_lock_release", 1)
						serr = c.SetData(sid, base, sdata)
					})
				}
			}
			c.Invalidate(op.IDs)
			simrt.SetUnlockHook(nil)
			for _, id := range op.IDs {
				delete(model, id)
			}
			res.Count("op_invalidate", 1)
			if sfired {
				if serr != nil {
					viol(fmt.Sprintf("second-caller-error|%s: store by the second caller failed: %v", what, serr))
					return
				}
				// either order is fine; take what the process says now
				if c.Contains(sid) {
					model[sid] = smc
				}
				if msg := compare(c, model, what+" with a second caller storing stream "+fmt.Sprint(sid)+" again meanwhile"); msg != "" {
					viol("second-caller-" + msg)
					return
				}
				if err := c.Close(); err != nil {
					viol(fmt.Sprintf("close-error|%s: %v", what, err))
					return
				}
				c = nil
				nc, err := converters.VerifNewCacheFile(path)
				if err != nil {
					viol(fmt.Sprintf("reopen-error|%s: %v", what, err))
					return
				}
				c = nc
				if msg := compare(c, model, what+" with a second caller storing stream "+fmt.Sprint(sid)+" again meanwhile, then reopened"); msg != "" {
					viol("second-caller-reopen-" + msg)
					return
				}
			}
		case "reset":
			if err := c.Reset(); err != nil {
				viol(fmt.Sprintf("reset-error|%s: %v", what, err))
				return
			}
			model = map[uint64][]mchunk{}
			res.Count("op_reset", 1)
		case "reopen":
			if err := c.Close(); err != nil {
				viol(fmt.Sprintf("close-error|%s: %v", what, err))
				return
			}
			c = nil
			nc, err := converters.VerifNewCacheFile(path)
			if err != nil {
				viol(fmt.Sprintf("reopen-error|%s: %v", what, err))
				return
			}
			c = nc
			what += " reopened"
			res.Count("fault_reopen", 1)
		}
		endCrash()
		if knownDead {
			break
		}
		if msg := compare(c, model, what); msg != "" {
			if op.K == "reopen" {
				msg = "reopen-" + msg
			}
			viol(msg)
			if res.Viol != nil {
				return
			}
			break
		}
		// A second caller: should a read release the cache's lock before it is done
		// (a lock released by a statement inside the call), a reset and a store of
		// another stream run at that very point. The read must then still return
		// what was stored for its stream before, or nothing — never another
		// stream's record and no error. (The repository releases these locks by
		// defer only: the hook does not fire there and this is a plain read.)
		if !p.Crash || oi%4 == 0 {
			var ids []uint64
			for id := range model {
				ids = append(ids, id)
			}
			sort.Slice(ids, func(i, j int) bool { return ids[i] < ids[j] })
			if len(ids) > 0 {
				id := ids[oi%len(ids)]
				other := (id + 1 + uint64(oi%8)) % 10
				if other == id {
					other = (id + 1) % 10
				}
				ob := []byte(fmt.Sprintf("second caller %d/%d ", oi, other))
				for len(ob) < 24+oi%200 {
					ob = append(ob, ob...)
				}
				odata := []index.Data{{Direction: index.DirectionClientToServer, Content: ob, Time: base.Add(time.Second)}, {Direction: index.DirectionServerToClient, Content: ob[:len(ob)/2], Time: base.Add(2 * time.Second)}}
				fired, ferr := false, error(nil)
				simrt.SetUnlockHook(func(site string) {
					if fired {
						return
					}
					fired = true
					res.Count("fault_second_caller_at_lock_release", 1)
					if err := c.Reset(); err != nil {
						ferr = err
						return
					}
					ferr = c.SetData(other, base, odata)
				})
				var msg string
				if oi%2 == 0 {
					msg = compareID(c, id, model[id], true, what+", read by a caller while a second caller resets the cache and stores stream "+fmt.Sprint(other))
				} else {
					d2, _, _, _, found, err := c.DataForSearch(id)
					want0, want1 := 0, 0
					for _, ch := range model[id] {
						if ch.dir == 0 {
							want0 += len(ch.data)
						} else {
							want1 += len(ch.data)
						}
					}
					if err != nil {
						msg = fmt.Sprintf("read-error|%s: DataForSearch(%d) while a second caller resets the cache: %v", what, id, err)
					} else if found && (len(d2[0]) != want0 || len(d2[1]) != want1) {
						msg = fmt.Sprintf("chunks|%s: DataForSearch(%d) while a second caller resets the cache returns %d+%d bytes, stored were %d+%d", what, id, len(d2[0]), len(d2[1]), want0, want1)
					}
				}
				simrt.SetUnlockHook(nil)
				if fired {
					if ferr != nil {
						viol(fmt.Sprintf("second-caller-error|%s: reset/store by the second caller failed: %v", what, ferr))
						return
					}
					if msg != "" && !strings.HasPrefix(msg, "lost|") && !strings.HasPrefix(msg, "contains|") {
						viol("second-caller-" + msg)
						if res.Viol != nil {
							return
						}
					}
					model = map[uint64][]mchunk{other: {{0, ob, base.Add(time.Second), ""}, {1, ob[:len(ob)/2], base.Add(2 * time.Second), ""}}}
					if m := compare(c, model, what+" and a second caller's reset and store"); m != "" {
						viol("second-caller-" + m)
						if res.Viol != nil {
							return
						}
					}
				} else if msg != "" {
					viol(msg)
					if res.Viol != nil {
						return
					}
				}
			}
		}
		if cr != nil {
			affected := map[uint64]bool{}
			all := false
			switch op.K {
			case "store":
				affected[op.ID] = true
			case "invalidate":
				for _, id := range op.IDs {
					affected[id] = true
				}
			case "reset":
				all = true
			}
			if msg := judgeCrashStates(&res, p.Prop, scratch, cr, before, model, affected, all, p.Ops[oi+1:], fmt.Sprintf("during op %d (%s)", oi, op.K)); msg != "" {
				viol(msg)
				if res.Viol != nil {
					return
				}
				break
			}
		}
	}
	res.SchedSig = sim.Hash(string(planJSON))
	res.NonTriv = len(p.Ops) > 3
	if res.Viol == nil {
		res.Sample = sim.MustJSON(map[string]any{"ops": len(p.Ops), "first_ops": firstN(p.Ops, 4), "cleanup_min": p.CleanupMin})
	}
	return
}

func firstN(ops []Op, n int) []Op {
	if len(ops) < n {
		n = len(ops)
	}
	return ops[:n]
}

// cutTwo splits "kind|text".
func cutTwo(msg string) (string, string, bool) {
	for i := 0; i < len(msg); i++ {
		if msg[i] == '|' {
			return msg[:i], msg, true
		}
	}
	return "other", msg, false
}

func (Engine) Shrink(planJSON json.RawMessage, last *sim.RunResult) []json.RawMessage {
	var p Plan
	json.Unmarshal(planJSON, &p)
	clone := func() Plan {
		var q Plan
		json.Unmarshal(planJSON, &q)
		return q
	}
	var out []json.RawMessage
	n := len(p.Ops)
	for chunk := n / 2; chunk >= 1; chunk /= 2 {
		for i := 0; i+chunk <= n; i += chunk {
			q := clone()
			q.Ops = append(append([]Op(nil), q.Ops[:i]...), q.Ops[i+chunk:]...)
			out = append(out, sim.MustJSON(q))
		}
		if chunk == 1 {
			break
		}
	}
	for i, op := range p.Ops {
		if len(op.Chunks) > 1 {
			for j := range op.Chunks {
				q := clone()
				q.Ops[i].Chunks = append(append([]Chunk(nil), q.Ops[i].Chunks[:j]...), q.Ops[i].Chunks[j+1:]...)
				out = append(out, sim.MustJSON(q))
			}
		}
		for j, c := range op.Chunks {
			if c.Len > 2 {
				q := clone()
				q.Ops[i].Chunks[j].Len = c.Len / 2
				out = append(out, sim.MustJSON(q))
			}
			if c.CT != "" {
				q := clone()
				q.Ops[i].Chunks[j].CT = ""
				out = append(out, sim.MustJSON(q))
			}
			if c.DtUS != 0 {
				q := clone()
				q.Ops[i].Chunks[j].DtUS = 0
				out = append(out, sim.MustJSON(q))
			}
		}
	}
	if p.CleanupMin != 16<<20 {
		q := clone()
		q.CleanupMin = 16 << 20
		out = append(out, sim.MustJSON(q))
	}
	return out
}
