package cachesim

import (
	"bytes"
	"fmt"
	"math/rand/v2"
	"os"
	"path/filepath"
	"syscall"

	"github.com/spq/pkappa2/internal/index"
	"github.com/spq/pkappa2/internal/index/converters"
	"github.com/spq/pkappa2/verif/sim"
	"github.com/spq/pkappa2/verif/simrt"
)

// Kill states of the cache file. While one operation runs, the file content is
// recorded at every I/O point at which it changed. Between two recorded
// contents S1 -> S2 the bytes that differ were written front to back (one
// buffered writer, or a single pwrite), so a kill in between leaves
// S2[:k] + S1[k:] for some k inside the changed range: those are the torn
// states. Writes of at most 8 bytes (the dead-record marker, the file header)
// are taken as atomic.
//
// A state is classified by what the operation was doing:
//
//	append   the changed range starts at the old end of file — the state is a
//	         file "whose last record was only partly written" (C15)
//	mark     an 8-byte in-place write (dead marker) — atomic, old or new
//	rewrite  anything else (compaction moves records forward in place, reset
//	         truncates): not a truncation state, judged for C12 only
type crashState struct {
	content []byte
	tmp     []byte // content of the compaction's temporary file next to the cache file
	hasTmp  bool
	rewrite bool
	site    string
	torn    bool
}

type crashRec struct {
	path    string
	ino     uint64
	last    []byte
	lastTmp []byte
	tmpN    int
	states  []crashState
	rewrite bool
	rng     *rand.Rand
}

func newCrashRec(path string, rng *rand.Rand) *crashRec {
	b, _ := os.ReadFile(path)
	return &crashRec{path: path, last: b, rng: rng, ino: inode(path)}
}

func (cr *crashRec) hook(site string, n uint64) { cr.observe(site) }

func inode(path string) uint64 {
	var st syscall.Stat_t
	if syscall.Stat(path, &st) != nil {
		return 0
	}
	return st.Ino
}

func (cr *crashRec) observe(site string) {
	b, err := os.ReadFile(cr.path)
	if err != nil {
		return
	}
	// a compaction writes the records to keep into <file>.tmp and renames it
	// over the cache file: a kill in between leaves the old cache file and the
	// temporary file, whatever had reached it
	tb, terr := os.ReadFile(cr.path + ".tmp")
	hasTmp := terr == nil
	if ino := inode(cr.path); ino != cr.ino {
		// the file was replaced by a rename: atomic, old or new, nothing in between
		cr.ino = ino
		cr.rewrite = false
		cr.states = append(cr.states, crashState{content: b, site: site, tmp: tb, hasTmp: hasTmp})
		cr.last = b
		cr.lastTmp = tb
		return
	}
	if bytes.Equal(b, cr.last) {
		if hasTmp && !bytes.Equal(tb, cr.lastTmp) && cr.tmpN < 6 {
			cr.tmpN++
			cr.lastTmp = tb
			cr.states = append(cr.states, crashState{content: b, site: site + " (temporary file of the compaction left behind)", tmp: tb, hasTmp: true})
		}
		return
	}
	s1, s2 := cr.last, b
	// changed range [a, e)
	a := 0
	for a < len(s1) && a < len(s2) && s1[a] == s2[a] {
		a++
	}
	e := len(s2)
	if len(s1) == len(s2) {
		for e > a && s1[e-1] == s2[e-1] {
			e--
		}
	}
	shrunk := len(s2) < len(s1) && a == len(s2) // pure truncation: atomic
	switch {
	case shrunk:
		// a compaction (or reset) finished its in-place part
		cr.rewrite = false
	case a >= len(s1):
		// append
	case e-a <= 8 && len(s1) == len(s2):
		// in-place marker
	default:
		cr.rewrite = true
	}
	if !shrunk && e-a > 8 && !(cr.rewrite && os.Getenv("VERIF_NO_TORN_REWRITE") != "") {
		ks := []int{}
		if e-a <= 48 {
			for k := a + 1; k < e; k++ {
				ks = append(ks, k)
			}
		} else {
			ks = append(ks, a+1, e-1)
			for i := 0; i < 6; i++ {
				ks = append(ks, a+1+cr.rng.IntN(e-a-1))
			}
		}
		for _, k := range ks {
			t := append([]byte(nil), s2[:k]...)
			if k < len(s1) {
				t = append(t, s1[k:]...)
			}
			cr.states = append(cr.states, crashState{content: t, rewrite: cr.rewrite, site: site, torn: true, tmp: tb, hasTmp: hasTmp})
		}
	}
	cr.states = append(cr.states, crashState{content: b, rewrite: cr.rewrite, site: site, tmp: tb, hasTmp: hasTmp})
	cr.last = b
	cr.lastTmp = tb
}

// applyOp executes one operation without crash enumeration (second life).
func applyOp(c **converters.VerifCache, path string, model map[uint64][]mchunk, op Op) string {
	switch op.K {
	case "store":
		var data []index.Data
		var mc []mchunk
		t := base
		for _, ch := range op.Chunks {
			t = t.Add(timeStep(ch))
			b := payload(ch)
			data = append(data, index.Data{Direction: index.Direction(ch.Dir), Content: b, Time: t, ContentType: ch.CT})
			mc = append(mc, mchunk{ch.Dir, b, t, ch.CT})
		}
		if err := (*c).SetData(op.ID, base, data); err != nil {
			return fmt.Sprintf("store-error|SetData(%d): %v", op.ID, err)
		}
		model[op.ID] = mc
	case "invalidate":
		(*c).Invalidate(op.IDs)
		for _, id := range op.IDs {
			delete(model, id)
		}
	case "reset":
		if err := (*c).Reset(); err != nil {
			return fmt.Sprintf("reset-error|%v", err)
		}
		for k := range model {
			delete(model, k)
		}
	case "reopen":
		if err := (*c).Close(); err != nil {
			return fmt.Sprintf("close-error|%v", err)
		}
		nc, err := converters.VerifNewCacheFile(path)
		if err != nil {
			return fmt.Sprintf("reopen-error|%v", err)
		}
		*c = nc
	}
	return ""
}

// judgeCrashStates reopens every recorded kill state of one operation.
// before/after: the model before and after the operation; affected: the
// stream ids the operation was about (nil: all). next: the operations that
// follow in the plan, a few of which are executed on the restarted file.
// It returns "kind|message" for the first violation.
func judgeCrashStates(res *sim.RunResult, prop, scratch string, cr *crashRec, before, after map[uint64][]mchunk, affected map[uint64]bool, allAffected bool, next []Op, what string) string {
	sv := simrt.Save()
	defer simrt.Restore(sv)
	seen := map[string]bool{}
	for i, st := range cr.states {
		h := sim.Hash(string(st.content))
		if st.hasTmp {
			h = sim.Hash(string(st.content) + "\x00tmp\x00" + string(st.tmp))
		}
		if seen[h] {
			continue
		}
		seen[h] = true
		if st.rewrite && prop != "C12" {
			// not a truncation state: outside C15's statement (C12 judges it)
			res.Count("crash_states_in_rewrite_not_judged", 1)
			continue
		}
		kind := "crash"
		if st.rewrite {
			kind = "crash-rewrite"
			res.Count("crash_states_in_rewrite", 1)
		}
		w := fmt.Sprintf("%s, killed at %s (state %d of %d, %d bytes", what, st.site, i+1, len(cr.states), len(st.content))
		if st.torn {
			w += ", write cut short"
			res.Count("fault_torn_write", 1)
		}
		w += ")"
		tp := filepath.Join(scratch, "crash.cidx")
		os.WriteFile(tp, st.content, 0o644)
		os.Remove(tp + ".tmp")
		if st.hasTmp {
			os.WriteFile(tp+".tmp", st.tmp, 0o644)
			res.Count("crash_states_with_compaction_tmp_left_behind", 1)
			if len(st.tmp) > 8 {
				res.Count("crash_states_with_compaction_tmp_left_behind_holding_records", 1)
			}
		}
		c, err := converters.VerifNewCacheFile(tp)
		res.Count("crash_states_restarted", 1)
		res.Count("fault_kill_at_io_point", 1)
		if err != nil {
			return fmt.Sprintf("%s-open|%s: the file does not open: %v", kind, w, err)
		}
		// resolve: every stream is as before or as after the operation in flight
		// (in a rewrite state a record may also be gone: a cache may forget,
		// it must not invent)
		resolved := map[uint64][]mchunk{}
		for id := uint64(0); id < 10; id++ {
			b, bok := before[id]
			a, aok := after[id]
			if !allAffected && !affected[id] {
				a, aok = b, bok
			}
			if !c.Contains(id) {
				if bok && aok && !st.rewrite {
					c.Close()
					return fmt.Sprintf("%s-lost|%s: stream %d was stored before the operation and is gone", kind, w, id)
				}
				if msg := compareID(c, id, nil, false, w); msg != "" {
					c.Close()
					return kind + "-" + msg
				}
				continue
			}
			var msgs []string
			ok := false
			if bok {
				if m := compareID(c, id, b, true, w); m == "" {
					resolved[id], ok = b, true
				} else {
					msgs = append(msgs, m)
				}
			}
			if !ok && aok {
				if m := compareID(c, id, a, true, w); m == "" {
					resolved[id], ok = a, true
				} else {
					msgs = append(msgs, m)
				}
			}
			if !ok {
				c.Close()
				if len(msgs) == 0 {
					return fmt.Sprintf("%s-ghost|%s: stream %d is served although it was neither stored before nor by the operation in flight", kind, w, id)
				}
				return kind + "-" + msgs[len(msgs)-1]
			}
		}
		if msg := compare(c, resolved, w); msg != "" {
			c.Close()
			return kind + "-" + msg
		}
		// second life: the next operations of the plan on the restarted file, then one more restart
		n := len(next)
		if n > 3 {
			n = 3
		}
		life := append(append([]Op(nil), next[:n]...), Op{K: "reopen"})
		if st.hasTmp {
			// the left-behind temporary file meets the next compaction: drop all
			// stored streams (or the highest), restart (compacts at load), restart again
			// (reads what that compaction left)
			life = life[:0]
			var have []uint64
			for id := uint64(0); id < 10; id++ {
				if _, ok := resolved[id]; ok {
					have = append(have, id)
				}
			}
			if len(have) > 0 && i%2 == 1 {
				have = have[len(have)-1:]
			}
			if len(have) > 0 {
				life = append(life, Op{K: "invalidate", IDs: have})
			}
			if n > 2 {
				n = 2
			}
			life = append(append(life, next[:n]...), Op{K: "reopen"}, Op{K: "reopen"})
		}
		for j, op := range life {
			if msg := applyOp(&c, tp, resolved, op); msg != "" {
				c.Close()
				return fmt.Sprintf("%s-then-%s (%s, then op +%d %s)", kind, msg, w, j+1, op.K)
			}
			if msg := compare(c, resolved, fmt.Sprintf("%s, then %d more operations (last: %s)", w, j+1, op.K)); msg != "" {
				c.Close()
				return kind + "-then-" + msg
			}
		}
		res.Count("crash_second_lives", 1)
		c.Close()
	}
	return ""
}
