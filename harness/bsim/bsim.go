// Package bsim is the "netsim + builder" engine: simulated network and
// capture tap in front of the real builder.FromPcap / index writer / reader.
// It decides C05 (payload equals what was exchanged) and C08 (import result
// independent of batching, arrival order, snapshots, restarts).
package bsim

import (
	"context"
	"encoding/json"
	"fmt"
	"io"
	"log"
	"os"
	"path/filepath"
	"sort"
	"strings"
	"time"

	"github.com/spq/pkappa2/internal/index"
	"github.com/spq/pkappa2/internal/query"
	"github.com/spq/pkappa2/verif/netsim"
	"github.com/spq/pkappa2/verif/oracle"
	"github.com/spq/pkappa2/verif/sim"
	"github.com/spq/pkappa2/verif/simrt"
)

type History struct {
	Batches  [][]int `json:"batches"`
	Restart  []bool  `json:"restart,omitempty"`  // restart the importer before batch i
	DropSnap []bool  `json:"dropsnap,omitempty"` // delete snapshot files at that restart
	FailSnap []bool  `json:"failsnap,omitempty"` // the snapshot file of batch i cannot be created (the import itself succeeds)
}

type Plan struct {
	Prop      string        `json:"prop"`
	Seed      uint64        `json:"seed"`
	Stacks    []netsim.Spec `json:"stacks,omitempty"` // C07: independent capture sets, imported separately
	Order     []int         `json:"order,omitempty"`  // C07: order of the resulting index files in the stack
	Net       netsim.Spec   `json:"net"`
	Hist      []History     `json:"hist"`
	SnapEvery uint64        `json:"snap_every"`
}

type Engine struct{}

func chronological(nf int, r interface{ IntN(int) int }) [][]int {
	var batches [][]int
	for i := 0; i < nf; {
		n := 1 + r.IntN(nf-i)
		if r.IntN(2) == 0 {
			n = 1
		}
		b := []int{}
		for j := 0; j < n; j++ {
			b = append(b, i+j)
		}
		batches = append(batches, b)
		i += n
	}
	return batches
}

func (Engine) Generate(prop, tier string, seed, run uint64) json.RawMessage {
	r := sim.NewRand(seed, run)
	cfg := netsim.DefaultGen()
	cfg.MaxConvs = 1 + r.IntN(12)
	cfg.MaxFiles = 1 + r.IntN(6)
	cfg.BigMsgs = r.IntN(8) == 0
	if cfg.BigMsgs {
		cfg.MaxPayload = 200_000
	}
	cfg.Faults = r.IntN(5) != 0
	cfg.LongGaps = r.IntN(3) == 0
	cfg.CoarseTick = true
	cfg.Jumble = true
	cfg.Chatty = true
	cfg.Resume = prop == "C08"
	spec := netsim.Gen(r, cfg)
	nf := len(netsim.Build(spec).Files)
	p := Plan{Prop: prop, Seed: seed, Net: *spec, SnapEvery: 100_000}
	if r.IntN(4) != 0 {
		p.SnapEvery = uint64(5 + r.IntN(200))
	}
	switch prop {
	case "C07":
		// several independent imports (stream ids overlap, hosts and contents differ) stacked in a seeded order
		ns := 2 + r.IntN(3)
		for i := 0; i < ns; i++ {
			c := netsim.DefaultGen()
			c.MaxConvs = 1 + r.IntN(6)
			c.MaxFiles = 1 + r.IntN(3)
			c.MaxPayload = 20_000
			c.Chatty = true
			c.Jumble = true
			sp := netsim.Gen(r, c)
			sp.Prefix = string(rune('a' + i))
			p.Stacks = append(p.Stacks, *sp)
		}
		for i := 0; i < 12; i++ {
			p.Order = append(p.Order, r.IntN(1000))
		}
	case "C05":
		p.Hist = []History{{Batches: chronological(nf, r)}}
	case "C08":
		if r.IntN(3) == 0 {
			p.Net.Jumble = true
		}
		if nf > 1 && p.Net.TickUS <= 1 && r.IntN(3) == 0 {
			// capture files that overlap in time; only with a fine capture clock: when
			// timestamps tie across two files that share a flow's packets, the order of
			// a stream's packet references depends on the import history (DESIGN §8.4)
			p.Net.Overlap = 2 + r.IntN(12)
		}
		restartEvery := []int{4, 4, 2, 1}[r.IntN(4)] // some capture sets get restart-heavy histories
		k := 2 + r.IntN(4)
		for h := 0; h < k; h++ {
			var hist History
			order := make([]int, nf)
			for i := range order {
				order[i] = i
			}
			switch r.IntN(4) {
			case 0: // chronological
			case 1: // reversed
				sort.Sort(sort.Reverse(sort.IntSlice(order)))
			default:
				r.Shuffle(nf, func(i, j int) { order[i], order[j] = order[j], order[i] })
			}
			for i := 0; i < nf; {
				n := 1
				if r.IntN(3) == 0 {
					n = 1 + r.IntN(nf-i)
				}
				hist.Batches = append(hist.Batches, append([]int(nil), order[i:i+n]...))
				i += n
			}
			for i := range hist.Batches {
				rs := i > 0 && r.IntN(restartEvery) == 0
				hist.Restart = append(hist.Restart, rs)
				hist.DropSnap = append(hist.DropSnap, rs && r.IntN(2) == 0)
			}
			if r.IntN(4) == 0 {
				hist.FailSnap = make([]bool, len(hist.Batches))
				hist.FailSnap[r.IntN(len(hist.Batches))] = true
			}
			p.Hist = append(p.Hist, hist)
		}
	}
	return sim.MustJSON(p)
}

func copyFile(src, dst string) error {
	in, err := os.Open(src)
	if err != nil {
		return err
	}
	defer in.Close()
	out, err := os.Create(dst)
	if err != nil {
		return err
	}
	if _, err := io.Copy(out, in); err != nil {
		out.Close()
		return err
	}
	return out.Close()
}

func (Engine) Execute(planJSON json.RawMessage, scratch string) (res sim.RunResult) {
	var p Plan
	if err := json.Unmarshal(planJSON, &p); err != nil {
		res.Infra = "bad plan: " + err.Error()
		return
	}
	res.Seed = p.Seed
	defer func() {
		if e := recover(); e != nil {
			res.Viol = &sim.Violation{Property: p.Prop, Oracle: "panic", Signature: "panic", Message: fmt.Sprint(e)}
		}
	}()
	log.SetOutput(io.Discard)
	simrt.Start(p.Seed, time.Unix(1_700_000_000, 0))
	simrt.SetKnobs(p.SnapEvery, 16*1024*1024)
	defer simrt.Stop()
	capt := netsim.Build(&p.Net)
	src := filepath.Join(scratch, "src")
	os.MkdirAll(src, 0o755)
	if err := capt.WriteAll(&p.Net, src); err != nil {
		res.Infra = "write pcaps: " + err.Error()
		return
	}
	res.Count("convs", int64(len(p.Net.Convs)))
	res.Count("files", int64(len(capt.Files)))
	res.Count("packets", int64(capt.Packets))
	spansFiles := 0
	for _, t := range capt.Truth {
		if t.FirstFile != t.LastFile {
			spansFiles++
		}
	}
	res.Count("convs_spanning_files", int64(spansFiles))
	for _, c := range p.Net.Convs {
		if c.Reorder > 0 {
			res.Count("fault_reorder_convs", 1)
		}
		if c.Dup > 0 {
			res.Count("fault_dup_convs", 1)
		}
	}
	viol := func(oracleName, sig, msg string) {
		v := &sim.Violation{Property: p.Prop, Oracle: oracleName, Signature: sig, Message: msg}
		if sim.Known[v.Key()] {
			// a known finding: counted, the rest of this history is not judged
			res.Count("known:"+v.Key(), 1)
			if res.KnownMsg == nil {
				res.KnownMsg = map[string]string{}
			}
			if _, ok := res.KnownMsg[v.Key()]; !ok {
				res.KnownMsg[v.Key()] = msg
			}
			return
		}
		if res.Viol == nil {
			res.Viol = v
		}
	}

	runHistory := func(hi int, h History, check func(im *oracle.Importer, imported map[int]bool, last bool) bool) ([]*oracle.StreamSig, bool) {
		d, err := oracle.MakeDirs(filepath.Join(scratch, fmt.Sprintf("h%d", hi)))
		if err != nil {
			res.Infra = err.Error()
			return nil, false
		}
		im, err := oracle.NewImporter(d)
		if err != nil {
			res.Infra = err.Error()
			return nil, false
		}
		defer im.Close()
		imported := map[int]bool{}
		failedBefore := simrt.FailedCreates()
		for bi, b := range h.Batches {
			if bi < len(h.Restart) && h.Restart[bi] {
				if bi < len(h.DropSnap) && h.DropSnap[bi] {
					ents, _ := os.ReadDir(d.Snapshot)
					for _, e := range ents {
						os.Remove(filepath.Join(d.Snapshot, e.Name()))
					}
					res.Count("fault_snapshot_dropped", 1)
				}
				if err := im.Restart(); err != nil {
					viol("restart", "restart-failed", err.Error())
					return nil, false
				}
				res.Count("fault_restart", 1)
			}
			var names []string
			for _, fi := range b {
				if err := copyFile(filepath.Join(src, capt.Names[fi]), filepath.Join(d.Pcap, capt.Names[fi])); err != nil {
					res.Infra = err.Error()
					return nil, false
				}
				names = append(names, capt.Names[fi])
				imported[fi] = true
			}
			failSnap := bi < len(h.FailSnap) && h.FailSnap[bi]
			if failSnap {
				simrt.FailCreates(".snap", 1)
			}
			irs, err := im.Import(names)
			if failSnap {
				if simrt.FailedCreates() > failedBefore {
					res.Count("fault_snapshot_save_failed", 1)
					failedBefore = simrt.FailedCreates()
				}
				simrt.FailCreates("", 0)
			}
			if err != nil {
				viol("import", "import-error", fmt.Sprintf("history %d batch %d %v: %v", hi, bi, names, err))
				return nil, false
			}
			for _, ir := range irs {
				res.Count("imports", 1)
				res.Count("streams_updated", int64(len(ir.Updated)))
				res.Count("streams_reset", int64(len(ir.Reset)))
				res.Count("streams_added", int64(len(ir.Added)))
				if ir.Created > 1 {
					res.Count("probe_second_index_file", 1)
				}
			}
			if ents, _ := os.ReadDir(d.Snapshot); len(ents) > 0 {
				for _, e := range ents {
					if fi, err := e.Info(); err == nil && fi.Size() > 8 {
						res.Count("probe_snapshot_nonempty", 1)
						break
					}
				}
			}
			if !check(im, imported, bi == len(h.Batches)-1) {
				return nil, false
			}
		}
		vis, err := oracle.Visible(im.Readers)
		if err != nil {
			viol("read", "read-error", err.Error())
			return nil, false
		}
		return vis, true
	}

	switch p.Prop {
	case "C07":
		execStackMerge(&p, scratch, &res, viol)
		res.SimTimeS = simrt.Elapsed().Seconds()
		res.SchedSig = sim.Hash(string(planJSON))
		return
	case "C05":
		h := p.Hist[0]
		_, _ = runHistory(0, h, func(im *oracle.Importer, imported map[int]bool, last bool) bool {
			vis, err := oracle.Visible(im.Readers)
			if err != nil {
				viol("read", "read-error", err.Error())
				return false
			}
			nImported := len(imported)
			msg := oracle.MatchTruth(vis, capt, func(t *netsim.Truth) bool { return t.LastFile < nImported }, last)
			if msg != "" {
				sig := "payload"
				switch {
				case strings.Contains(msg, "no stream"):
					sig = "missing"
				case strings.Contains(msg, "streams for one connection"):
					sig = "duplicate"
				case strings.Contains(msg, "swapped"):
					sig = "swapped"
				case strings.Contains(msg, "direction sequence"):
					sig = "dirs"
				case strings.Contains(msg, "extra stream"):
					sig = "extra"
				case strings.Contains(msg, "byte counters"):
					sig = "counters"
				}
				viol("truth", sig, fmt.Sprintf("after %d/%d files: %s", nImported, len(capt.Files), msg))
				return false
			}
			res.Count("truth_checks", 1)
			return true
		})
	case "C08":
		// reference: one-shot import
		all := make([]int, len(capt.Files))
		for i := range all {
			all[i] = i
		}
		ref, ok := runHistory(1000, History{Batches: [][]int{all}}, func(*oracle.Importer, map[int]bool, bool) bool { return true })
		if !ok {
			break
		}
		if msg := oracle.MatchTruth(ref, capt, func(*netsim.Truth) bool { return true }, true); msg != "" {
			// C05's business; do not judge C08 on a wrong reference
			res.Count("reference_not_truth", 1)
		}
		connKey := func(proto, a, b string) string {
			if a > b {
				a, b = b, a
			}
			return proto + "|" + a + "|" + b
		}
		keyOfConv := make([]string, len(capt.Truth))
		for i, t := range capt.Truth {
			keyOfConv[i] = connKey(t.Proto, fmt.Sprintf("%s:%d", t.ClientIP, t.ClientPort), fmt.Sprintf("%s:%d", t.ServerIP, t.ServerPort))
		}
		for hi, h := range p.Hist {
			idOf := map[string]uint64{}
			// a connection whose packets imported so far had an idle gap longer than
			// the inactivity timeout was (legitimately) split into two streams at
			// that point; when a later import fills the gap the streams become one
			wasSplit := map[string]bool{}
			// "a gap was filled": fewer such gaps now than at some earlier point of
			// the history (a flow that really falls silent for longer than the
			// timeout keeps its gap and is not covered by the known finding)
			maxGaps := map[string]int{}
			var importedNow map[int]bool
			noteSplits := func(imported map[int]bool) {
				importedNow = imported
				for _, k := range keyOfConv {
					if g := gapCount(capt, imported, keyOfConv, k); g > maxGaps[k] {
						maxGaps[k] = g
					}
				}
				times := map[int][]int64{}
				for fi := range capt.Files {
					if !imported[fi] {
						continue
					}
					for _, pk := range capt.Files[fi] {
						times[pk.Conv] = append(times[pk.Conv], pk.TimeUS)
					}
				}
				for c, ts := range times {
					sort.Slice(ts, func(i, j int) bool { return ts[i] < ts[j] })
					for i := 1; i < len(ts); i++ {
						if ts[i]-ts[i-1] > 300_000_000 {
							wasSplit[keyOfConv[c]] = true
						}
					}
				}
			}
			gapFilled := func(k string) bool {
				return wasSplit[k] && gapCount(capt, importedNow, keyOfConv, k) < maxGaps[k]
			}
			suffix := func(k string) string {
				if gapFilled(k) {
					return "/after-gap-filled"
				}
				return ""
			}
			vis, ok := runHistory(hi, h, func(im *oracle.Importer, imported map[int]bool, last bool) bool {
				vis, err := oracle.Visible(im.Readers)
				if err != nil {
					viol("read", "read-error", err.Error())
					return false
				}
				seen := map[string]uint64{}
				splitNow := map[string]bool{}
				for k, v := range wasSplit {
					splitNow[k] = v
				}
				noteSplits(imported)
				for _, s := range vis {
					k := connKey(s.Proto, fmt.Sprintf("%s:%d", s.ClientIP, s.ClientPort), fmt.Sprintf("%s:%d", s.ServerIP, s.ServerPort))
					if o, dup := seen[k]; dup {
						if wasSplit[k] && !splitNow[k] || currentlySplit(capt, imported, keyOfConv, k) {
							// the data imported so far has an idle gap longer than the
							// inactivity timeout: two streams are the right answer now
							continue
						}
						viol("ids", "two-ids"+suffix(k), fmt.Sprintf("history %d: connection %s visible as ids %d and %d", hi, k, o, s.ID))
						return false
					}
					seen[k] = s.ID
					if old, ok := idOf[k]; ok && old != s.ID {
						viol("ids", "id-changed"+suffix(k), fmt.Sprintf("history %d: connection %s had id %d, now %d", hi, k, old, s.ID))
						return false
					}
					idOf[k] = s.ID
				}
				for k, old := range idOf {
					if _, ok := seen[k]; !ok {
						viol("ids", "vanished"+suffix(k), fmt.Sprintf("history %d: connection %s (id %d) no longer visible", hi, k, old))
						return false
					}
				}
				return true
			})
			if !ok {
				break
			}
			if msg := oracle.SameUpToNumbering(ref, vis); msg != "" {
				sfx := ""
				for k := range wasSplit {
					// the message names the endpoints of the stream without counterpart
					a, b, _ := strings.Cut(strings.SplitN(k, "|", 2)[1], "|")
					v := gapFilled(k)
					if v && (strings.Contains(msg, strings.Replace(a, ":", ":", 1)) || strings.Contains(msg, b)) {
						sfx = "/after-gap-filled"
					}
				}
				viol("oneshot", "differs"+sfx, fmt.Sprintf("history %d %v: %s", hi, h.Batches, msg))
				break
			}
			res.Count("histories", 1)
		}
	}
	res.SimTimeS = simrt.Elapsed().Seconds()
	res.SchedSig = sim.Hash(planShape(&p))
	res.NonTriv = spansFiles > 0 || len(capt.Files) > 1
	if res.Viol == nil {
		res.Sample = sim.MustJSON(map[string]any{"convs": len(p.Net.Convs), "files": len(capt.Files), "packets": capt.Packets, "hist": p.Hist, "snap_every": p.SnapEvery})
	}
	return
}

func planShape(p *Plan) string {
	var sb strings.Builder
	for _, c := range p.Net.Convs {
		fmt.Fprintf(&sb, "%s%v%d/%d/%d/%d;", c.Proto, c.V6, len(c.Msgs), c.MSS, c.Reorder, c.Dup)
	}
	fmt.Fprintf(&sb, "|%v|%v", p.Net.Cuts, p.Hist)
	return sb.String()
}

func (Engine) Shrink(planJSON json.RawMessage, last *sim.RunResult) []json.RawMessage {
	var p Plan
	json.Unmarshal(planJSON, &p)
	var out []json.RawMessage
	emit := func(q Plan) { out = append(out, sim.MustJSON(q)) }
	clone := func() Plan {
		var q Plan
		json.Unmarshal(planJSON, &q)
		return q
	}
	// drop histories
	if len(p.Hist) > 1 {
		for i := range p.Hist {
			q := clone()
			q.Hist = append(q.Hist[:i], q.Hist[i+1:]...)
			emit(q)
		}
	}
	// drop conversations (cuts are packet indices: rescale by keeping them and letting Build clamp)
	if len(p.Net.Convs) > 1 {
		half := len(p.Net.Convs) / 2
		q := clone()
		q.Net.Convs = q.Net.Convs[:half]
		emit(q)
		q = clone()
		q.Net.Convs = q.Net.Convs[half:]
		emit(q)
		for i := range p.Net.Convs {
			q := clone()
			q.Net.Convs = append(q.Net.Convs[:i], q.Net.Convs[i+1:]...)
			emit(q)
		}
	}
	// drop cuts (fewer files): batches must be renumbered -> collapse to chronological single batches
	for i := range p.Net.Cuts {
		q := clone()
		q.Net.Cuts = append(q.Net.Cuts[:i], q.Net.Cuts[i+1:]...)
		nf := len(netsim.Build(&q.Net).Files)
		for hi := range q.Hist {
			q.Hist[hi] = renumber(q.Hist[hi], nf)
		}
		emit(q)
	}
	// simplify conversations
	for i, c := range p.Net.Convs {
		if len(c.Msgs) > 1 {
			q := clone()
			q.Net.Convs[i].Msgs = q.Net.Convs[i].Msgs[:len(c.Msgs)/2]
			emit(q)
			q = clone()
			q.Net.Convs[i].Msgs = q.Net.Convs[i].Msgs[len(c.Msgs)/2:]
			emit(q)
		}
		if c.Reorder > 0 {
			q := clone()
			q.Net.Convs[i].Reorder = 0
			emit(q)
		}
		if c.Dup > 0 {
			q := clone()
			q.Net.Convs[i].Dup = 0
			emit(q)
		}
		if c.Close != "" {
			q := clone()
			q.Net.Convs[i].Close = ""
			emit(q)
		}
		for j, m := range c.Msgs {
			if m.Len > 8 {
				q := clone()
				q.Net.Convs[i].Msgs[j].Len = m.Len / 2
				emit(q)
			}
			if m.GapUS > 1000 {
				q := clone()
				q.Net.Convs[i].Msgs[j].GapUS = 500
				emit(q)
			}
		}
	}
	// simplify histories: no restarts, merge batches
	for hi, h := range p.Hist {
		for bi := range h.Restart {
			if h.Restart[bi] {
				q := clone()
				q.Hist[hi].Restart[bi] = false
				q.Hist[hi].DropSnap[bi] = false
				emit(q)
			}
		}
	}
	if p.SnapEvery != 100_000 {
		q := clone()
		q.SnapEvery = 100_000
		emit(q)
	}
	return out
}

func renumber(h History, nf int) History {
	var nh History
	seen := map[int]bool{}
	for _, b := range h.Batches {
		var nb []int
		for _, f := range b {
			if f < nf && !seen[f] {
				nb = append(nb, f)
				seen[f] = true
			}
		}
		if len(nb) > 0 {
			nh.Batches = append(nh.Batches, nb)
		}
	}
	for f := 0; f < nf; f++ {
		if !seen[f] {
			nh.Batches = append(nh.Batches, []int{f})
		}
	}
	nh.Restart = make([]bool, len(nh.Batches))
	nh.DropSnap = make([]bool, len(nh.Batches))
	return nh
}

var mergeBattery = []string{"sport:80 sort:id", "data:\"FLAG\" sort:id", "cdata:alpha sort:-id", "cbytes:100: sort:id", "chost:10.0.0.0/16 sort:id", "protocol:udp sort:id", "id:1:3 sort:id", "sort:id limit:3", "host:fd00::1:0/112 sort:id", "sbytes::50 sort:id limit:2", "-data:\"passwd\" sort:id", "sort:sbytes,id", "sort:-cbytes,id limit:4", "sort:chost,id", "sort:-shost,id limit:3", "sort:shost,cport,id", "chost:10.0.0.0/8 sort:id", "host:fd00::/16 sort:id", "-chost:10.0.0.0/8 sort:id", "-shost:fd00::/16 sort:id", "@s:id:0 ftime:@s:ltime@: sort:id", "@s:id:1 ltime::@s:ftime@+10s sort:id", "@s:id:2 ftime:@s:ftime@-30s:@s:ltime@+30s sort:id"}

func stackSig(readers []*index.Reader) (string, error) {
	vis, err := oracle.Visible(readers)
	if err != nil {
		return "", err
	}
	var sb strings.Builder
	for _, s := range vis {
		fmt.Fprintf(&sb, "%d:%s;", s.ID, s.ContentKey())
	}
	// time filters with bounds taken from the streams themselves (every
	// stream's first and last packet time is a bound once, from below and from
	// above), so that per-file time ranges used for pruning matter
	battery := append([]string(nil), mergeBattery...)
	seenT := map[int64]bool{}
	for _, s := range vis {
		for _, ns := range []int64{s.FirstNS, s.LastNS} {
			sec := ns / 1_000_000_000
			if seenT[sec] || len(seenT) >= 12 {
				continue
			}
			seenT[sec] = true
			t := time.Unix(sec, 0).UTC().Format("2006-01-02 150405")
			battery = append(battery, fmt.Sprintf("ltime:\"%s:\" sort:id", t), fmt.Sprintf("ltime:\":%s\" sort:id", t), fmt.Sprintf("ftime:\"%s:\" sort:id", t), fmt.Sprintf("ftime:\":%s\" sort:id", t))
		}
	}
	for _, qs := range battery {
		q, err := query.Parse(qs)
		if err != nil {
			return "", fmt.Errorf("battery %q: %w", qs, err)
		}
		limit := uint(0)
		if q.Limit != nil {
			limit = *q.Limit
		}
		res, more, _, err := index.SearchStreams(context.Background(), readers, nil, q.ReferenceTime, q.Conditions, nil, q.Sorting, limit, 0, nil, nil, false)
		if err != nil {
			fmt.Fprintf(&sb, "|%s!%v", qs, err)
			continue
		}
		fmt.Fprintf(&sb, "|%s=%v:", qs, more)
		for _, s := range res {
			fmt.Fprintf(&sb, "%d,", s.ID())
		}
	}
	return sb.String(), nil
}

func diffSig(a, b string) string {
	pa, pb := strings.Split(a, "|"), strings.Split(b, "|")
	if pa[0] != pb[0] {
		sa, sb := strings.Split(pa[0], ";"), strings.Split(pb[0], ";")
		for i := 0; i < len(sa) && i < len(sb); i++ {
			if sa[i] != sb[i] {
				return fmt.Sprintf("stream-content|visible stream differs: %q -> %q", sa[i], sb[i])
			}
		}
		return fmt.Sprintf("stream-set|%d visible streams -> %d", len(sa)-1, len(sb)-1)
	}
	for i := 1; i < len(pa) && i < len(pb); i++ {
		if pa[i] != pb[i] {
			return fmt.Sprintf("search|search result differs: %s -> %s", pa[i], pb[i])
		}
	}
	return "other|signatures differ"
}

// execStackMerge: merging any suffix of any stack of index files (repeatedly) changes nothing observable.
func execStackMerge(p *Plan, scratch string, res *sim.RunResult, viol func(oracleName, sig, msg string)) {
	var all []*index.Reader
	defer func() {
		for _, r := range all {
			r.Close()
		}
	}()
	for si := range p.Stacks {
		spec := &p.Stacks[si]
		capt := netsim.Build(spec)
		d, err := oracle.MakeDirs(filepath.Join(scratch, fmt.Sprintf("s%d", si)))
		if err != nil {
			res.Infra = err.Error()
			return
		}
		im, err := oracle.NewImporter(d)
		if err != nil {
			res.Infra = err.Error()
			return
		}
		if err := capt.WriteAll(spec, d.Pcap); err != nil {
			res.Infra = err.Error()
			return
		}
		// one import per capture file: several index files per stack, with updated streams
		for _, n := range capt.Names {
			if _, err := im.Import([]string{n}); err != nil {
				viol("import", "import-error", err.Error())
				return
			}
		}
		all = append(all, im.Readers...)
		im.Readers = nil
	}
	// seeded stack order: the property quantifies over every ordered list of index files
	type ent struct {
		r   *index.Reader
		key int
		pos int
	}
	ents := make([]ent, len(all))
	for i, r := range all {
		ents[i] = ent{r, p.Order[i%len(p.Order)], i}
	}
	sort.SliceStable(ents, func(i, j int) bool { return ents[i].key < ents[j].key })
	stack := make([]*index.Reader, len(ents))
	for i, e := range ents {
		stack[i] = e.r
	}
	res.Count("stack_files", int64(len(stack)))
	mdir := filepath.Join(scratch, "merged")
	os.MkdirAll(mdir, 0o755)
	base, err := stackSig(stack)
	if err != nil {
		viol("read", "read-error", err.Error())
		return
	}
	for k := len(stack) - 2; k >= 0; k-- {
		merged, err := index.Merge(mdir, stack[k:])
		if err != nil {
			viol("merge", "merge-error", fmt.Sprintf("Merge of the last %d of %d files failed: %v", len(stack)-k, len(stack), err))
			return
		}
		ns := append(append([]*index.Reader(nil), stack[:k]...), merged...)
		sig, err := stackSig(ns)
		for _, m := range merged {
			defer m.Close()
		}
		if err != nil {
			viol("merge", "read-error", fmt.Sprintf("reading the stack after merging the last %d of %d files failed: %v", len(stack)-k, len(stack), err))
			return
		}
		if sig != base {
			kind, msg, _ := strings.Cut(diffSig(base, sig), "|")
			viol("merge", kind, fmt.Sprintf("merging the last %d of %d index files: %s", len(stack)-k, len(stack), msg))
			return
		}
		res.Count("c07_suffix_merges", 1)
		// merge again on top of the merged result (repeatedly)
		if k > 0 && len(merged) >= 1 {
			again, err := index.Merge(mdir, ns[k-1:])
			if err == nil {
				ns2 := append(append([]*index.Reader(nil), ns[:k-1]...), again...)
				sig2, err2 := stackSig(ns2)
				for _, m := range again {
					m.Close()
				}
				if err2 == nil && sig2 != base {
					kind, msg, _ := strings.Cut(diffSig(base, sig2), "|")
					viol("merge", "repeated-"+kind, fmt.Sprintf("merging a merged file again (last %d files): %s", len(ns)-k+1, msg))
					return
				}
				res.Count("c07_repeated_merges", 1)
			}
		}
	}
	res.NonTriv = len(stack) > 2
}

// currentlySplit: do the packets of connection k imported so far have an idle
// gap longer than the inactivity timeout?
// gapCount: the number of idle gaps longer than the inactivity timeout between
// the packets of connection k in the imported files.
func gapCount(capt *netsim.Capture, imported map[int]bool, keyOfConv []string, k string) int {
	var ts []int64
	for fi := range capt.Files {
		if !imported[fi] {
			continue
		}
		for _, pk := range capt.Files[fi] {
			if keyOfConv[pk.Conv] == k {
				ts = append(ts, pk.TimeUS)
			}
		}
	}
	sort.Slice(ts, func(i, j int) bool { return ts[i] < ts[j] })
	n := 0
	for i := 1; i < len(ts); i++ {
		if ts[i]-ts[i-1] > 300_000_000 {
			n++
		}
	}
	return n
}

func currentlySplit(capt *netsim.Capture, imported map[int]bool, keyOfConv []string, k string) bool {
	var ts []int64
	for fi := range capt.Files {
		if !imported[fi] {
			continue
		}
		for _, pk := range capt.Files[fi] {
			if keyOfConv[pk.Conv] == k {
				ts = append(ts, pk.TimeUS)
			}
		}
	}
	sort.Slice(ts, func(i, j int) bool { return ts[i] < ts[j] })
	for i := 1; i < len(ts); i++ {
		if ts[i]-ts[i-1] > 300_000_000 {
			return true
		}
	}
	return false
}
