#!/usr/bin/env python3
# wave 3: builds /verif/seeded/<prop>-w5mN/ from the sub-agents' deliverables (/tmp/mut/out5),
# the first confirmation run (results_w5_first.txt) and the final one (results_w5_final.txt)
import json,os,re,shutil
def parse(fn):
    res={}
    if not os.path.exists(fn): return res
    for l in open(fn):
        m=re.match(r'RESULT (/tmp/mut/out5/(C\d+)/(m\d)) build=(\w+) suite=(\w+) demo_with=(\w+) demo_without=(\w+) \| (.*)',l)
        if not m: continue
        d,prop,mn,build,suite,dw,dwo,rest=m.groups()
        res[(prop,mn)]=dict(dir=d,build=build,suite=suite,demo_with=dw,demo_without=dwo,checks=rest.strip())
    return res
first=parse('/tmp/mut/results_w5_first.txt'); final=parse('/tmp/mut/results_w5_final.txt')
for key in sorted(final):
    prop,mn=key; r=final[key]; f=first.get(key,{})
    sid=f"{prop}-w5{mn}"; out=f"/verif/seeded/{sid}"
    if not (r['build']=='ok' and r['demo_with']=='fail' and r['demo_without']=='pass'):
        print("NOT CONFIRMED",sid,r); continue
    os.makedirs(out,exist_ok=True)
    for fn in ['patch.diff','demo_test.go','RUN.txt','patch.orig.diff']:
        p=os.path.join(r['dir'],fn)
        if os.path.exists(p): shutil.copy(p,os.path.join(out,fn if fn!='demo_test.go' else 'demo_test.go.txt'))
    meta=json.load(open(os.path.join(r['dir'],'meta.json')))
    det=lambda s: re.findall(r'(C\d+) exit=(\d)',s)
    m2={"id":sid,"property":prop,"summary":meta.get('summary'),"needs":meta.get('needs'),"author_ran":meta.get('ran'),
        "confirmed_by_me":{"how":"/verif/mutcheck.sh in a scratch worktree of /repo HEAD: patch applied, go build ./internal/..., go test ./internal/..., demo with the patch, demo without the patch (C20 demos with -race)","build":r['build'],"suite_with_patch":r['suite'],"demo_with_patch":r['demo_with'],"demo_without_patch":r['demo_without']},
        "first_run":{"checks":[{"check":c,"tier":"quick","exit":int(e),"detected":e=='1'} for c,e in det(f.get('checks',''))],"output":f.get('checks','')[:400]},
        "checks_run":[{"check":c,"tier":"quick","exit":int(e),"detected":e=='1'} for c,e in det(r['checks'])],
        "check_output":r['checks'][:600]}
    cross={"C11-w5m2":"caught by C20 (an unsynchronised map read needs two goroutines at once; the race detector sees it): C20/race/<service loop> <-> manager.(*Manager).UpdateTag","C12-w5m2":"caught by C08 (a restart between imports with a reloaded snapshot is C08's clause): C08/oneshot/differs","C16-w5m1":"caught by C15 and C12 through cachesim (same change as C12-w2m1/C15-w2m2)","C16-w5m2":"caught by C15 (disk full during a store; same change as C15-w4m2)"}
    if sid in cross: m2["cross"]=cross[sid]
    json.dump(m2,open(os.path.join(out,'meta.json'),'w'),indent=1)
    print(sid,"suite",r['suite'],"first",[f"{c}:{'DET' if e=='1' else 'missed' if e=='0' else 'exit'+e}" for c,e in det(f.get('checks',''))],"final",[f"{c}:{'DET' if e=='1' else 'missed'}" for c,e in det(r['checks'])])
