#!/usr/bin/env python3
# regenerates MANIFEST.json from the table below (kept in sync with cmd/verif)
import json,sys
claimed = sys.argv[1:]  # property ids to claim
na_pure={"C01":"Write-then-read of one index file is a pure function of the stream set; no schedule, clock, fault or history in the statement (DESIGN §5).",
"C02":"Search result is a pure function of (index stack, query, sort, limit, page); no concurrency, time or I/O fault in the statement (DESIGN §5).",
"C03":"Normalisation is a pure function of the query text (DESIGN §5).",
"C04":"Payload matching is a pure function of (expressions, stored payload layout, cached outputs) (DESIGN §5).",
"C14":"Parser totality/promptness is a pure function of the input string (DESIGN §5).",
"C17":"Sequential data structure; no shared state, time or I/O (DESIGN §5).",
"C18":"Pure function of the regular expression (DESIGN §5)."}
info={
"C05":("bsim","exploration","Seeded simulation of the network path and capture tap in front of the real importer; every run compares the indexed streams with the generated ground truth after every import batch.","netsim ground truth; well-formed traffic only","deterministic simulation: simulated network + capture tap, ground-truth oracle","4 C05"),
"C06":("mgrsim","exploration","Seeded search over interleavings of API calls and background job bodies/completions of the real manager; after every step the incremental tag state and a fresh view are compared with a from-scratch evaluation.","one quiescent SearchStreams evaluation is the reference; samples, not proof","deterministic simulation: seeded scheduler over job gates, recomputation oracle","4 C06"),
"C07":("mgrsim","exploration","Background merges are applied at seeded points of seeded import histories; visible state and a search battery are compared immediately before/after each merge completion and against repeated suffix merges at the end.","total sort orders in the battery; samples, not proof","deterministic simulation: seeded scheduler, before/after oracle","4 C07"),
"C08":("bsim","exploration","For each seeded capture set several import histories (batching, order, restarts, snapshots kept/dropped, snapshot interval) are compared with a one-shot import up to numbering, with id stability after every batch.","one-shot import as reference (tied to ground truth by C05)","deterministic simulation: seeded import histories with restart faults, reference-import oracle","4 C08"),
"C09":("mgrsim","exploration","Bounded liveness: after the last API call the controller drains enabled background steps in seeded order; a hang, a drain beyond the structural bound, or a non-quiescent state with nothing enabled is a violation.","watchdog 30 s; bound 200+40(T+1)(F+C+1)","deterministic simulation: seeded scheduler, bounded-liveness drain","4 C09"),
"C10":("mgrsim","exploration","Views are opened at seeded points of seeded schedules and compared with a one-shot reference import of the processed captures and with themselves at later reads.","view opened at first use; one-shot import reference","deterministic simulation: seeded scheduler, reference-import and stability oracle","4 C10"),
"C11":("mgrsim","exploration","Seeded sequences of valid and invalid tag calls interleaved with jobs; model-based atomicity check after every call, graph well-formedness after every step, crash/hang detection.","only prescribed outcomes are demanded","deterministic simulation: seeded API histories, tag-table reference model","4 C11"),
"C12":("mgrsim","fault_enumeration","Within each seeded run the data directory is snapshotted at every I/O point where it changed (plus torn tails); every distinct crash state is restarted and checked against the model as of that instant; clean restarts are the fault-free configuration.","crash = process kill, directory contents are the durable state","deterministic simulation with crash-point enumeration inside each history","4 C12"),
"C13":("mgrsim","exploration","Views held across imports, merges and jobs under seeded schedules; file existence, use counts and re-reads after every step, exact equalities at quiescence.","job holdings are internal; equalities only when no job exists","deterministic simulation: seeded scheduler, reference-count model","4 C13"),
"C15":("cachesim","fault_enumeration","Seeded operation histories on the real cache file against a map model; after every store the file is truncated at every byte of the appended record (exhaustive for that record) and reopened.","zero-length chunks may vanish","deterministic simulation: model-based histories with exhaustive truncation of the last record","4 C15"),
"C16":("mgrsim","exploration","Converter attach/detach/reset, imports extending converted streams, on-demand conversion and transient failures under seeded schedules; every cached output must carry the digest of the current payload.","harness converter prints input digest","deterministic simulation: seeded scheduler with a deterministic converter process, digest oracle","4 C16"),
"C19":("httpsim","exploration","Concurrent uploads with gated request bodies in seeded interleavings, aborts and downloads against the real router; tree outside the capture dir unchanged, no overwrite, exactly one import per accepted upload.","input-space coverage of encodings not claimed","deterministic simulation: in-process transport with seeded body interleaving","4 C19"),
"C20":("mgrsim","exploration","The same seeded schedules run under the Go race detector with a happens-before-transparent control plane; any race report with a repository frame is a violation.","Go race detector; raw syscalls add no happens-before","deterministic simulation driving the race detector (HB-transparent controller)","4 C20"),
}
checks=[]
for pid in claimed:
    eng,level,text,note,tech,ref=info[pid]
    checks.append({"property_id":pid,"quick_cmd":f"./bin/verif check {pid} --tier quick","thorough_cmd":f"./bin/verif check {pid} --tier thorough","evidence_file":f"/verif/evidence/{pid}.json","replay_cmd_template":"./bin/verif replay {path}","engine":eng,"level_claimed":{"category":level,"text":text,"design_ref":"DESIGN.md §"+ref},"level_note":note,"technique":tech})
na=[{"property_id":k,"reason":v} for k,v in na_pure.items()]
for pid in info:
    if pid not in claimed:
        na.append({"property_id":pid,"reason":"simulation target (DESIGN §4) whose check is still under construction; not claimed until it runs clean on the unchanged tree"})
m={"version":1,"setup_cmd":"./setup.sh",
"hooks":{"guard":"verif","enable":"no hook commit exists: every check runs harness/simgen over the current /repo tree (go/ast+go/types rewriter, output in a scratch dir) and builds harness/cmd/simworker with `go build -tags verif -overlay <scratch>/gen/overlay.json`","baseline_off_cmd":"for m in $(cat /w/out/gomods.txt); do MF=$(cd /repo/$m && . /w/out/goenv.sh && gomodflag); (cd /repo/$m && go test $MF -json -vet=off -count=1 -timeout 25m ./...); done","source_commits":[],"add_only":True},
"engines":[
 {"name":"mgrsim","path":"harness/mgrsim","serves_properties":["C06","C07","C09","C10","C11","C12","C13","C16","C20"],"kind_free_text":"real manager under a seeded controller (gates at job begin/completion, simulated clock/ticker/map order, crash snapshots)"},
 {"name":"bsim","path":"harness/bsim","serves_properties":["C05","C08"],"kind_free_text":"simulated network and capture tap in front of the real builder"},
 {"name":"cachesim","path":"harness/cachesim","serves_properties":["C15"],"kind_free_text":"real cache file against a map model with exhaustive truncation"},
 {"name":"httpsim","path":"harness/httpsim","serves_properties":["C19"],"kind_free_text":"real router with in-process transport and gated bodies"}],
"checks":checks,"not_applicable":na,
"notes":"Exit 0 held / 1 VIOLATION / 2 infrastructure. Known findings: known_findings.json. fix: commits in /repo repair genuine defects found by the checks."}
json.dump(m,open("/verif/MANIFEST.json","w"),indent=1)
