#!/usr/bin/env python3
# regenerates the table of DESIGN.md §10 (between <!-- seeded:table --> markers) from /verif/seeded/*/meta.json
import json, glob, re, os
rows = ['| id | change | first run | now (quick tier) | signature reported |', '|---|---|---|---|---|']
def wave(i):
    m = re.search(r'-w(\d)m', i)
    return int(m.group(1)) if m else 1
ids = sorted((os.path.basename(d) for d in glob.glob('/verif/seeded/C*')), key=lambda i: (i[:3], wave(i), i))
n = 0
for i in ids:
    m = json.load(open(f'/verif/seeded/{i}/meta.json'))
    fin = m.get('checks_run', [])
    first = m.get('first_run', {}).get('checks') or fin
    def fmt(l):
        return ', '.join(f"{c['check']} {'**caught**' if c['detected'] else ('exit '+str(c['exit']) if c['exit'] not in (0,1) else 'missed')}" for c in l) or '-'
    extra = m.get('cross', '') or m.get('not_caught', '')
    sig = re.sub(r'\s+', ' ', m.get('check_output', ''))
    sm = re.search(r'(C\d\d/[^ ]+)', sig)
    fnote = ''
    if m.get('strengthened_before_first_run'):
        fnote = ' (' + m['strengthened_before_first_run'] + ')'
    if m.get('first_run', {}).get('note'):
        fnote += ' (' + m['first_run']['note'] + ')'
    rows.append(f"| {i} | {(m.get('summary') or '')[:170].replace('|','/')}... | {fmt(first)}{fnote} | {fmt(fin)}{(' — ' + extra) if extra else ''} | `{sm.group(1) if sm else '-'}` |")
    n += 1
# summary numbers
import collections
tot = 0; own = 0; cross = 0; nc = []; firstmiss = 15  # waves 1 and 2: 15 misses, listed by hand in the first table
perw = collections.Counter()
for i in ids:
    m = json.load(open(f'/verif/seeded/{i}/meta.json'))
    tot += 1; perw[wave(i)] += 1
    fin = m.get('checks_run', []); first = m.get('first_run', {}).get('checks')
    if first is not None and not any(c['detected'] for c in first):
        firstmiss += 1
    if any(c['detected'] for c in fin if c['check'] == m['property']):
        own += 1
    elif m.get('cross'):
        cross += 1
    else:
        nc.append(i)
summary = (f"**Result (generated from the metas).** {tot} changes in {len(perw)} waves ({tot//13} per property). "
           f"{own} are caught by the quick check of the property they were written for in the last recorded run, "
           f"{cross} only by the quick check of another property that owns the behaviour they break (column \"now\"), "
           f"{len(nc)} by no quick check ({', '.join(nc)}; the reason is given in the table). "
           f"{firstmiss} were missed when first tried.")
s = open('/verif/DESIGN.md').read()
s = re.sub(r'(<!-- seeded:summary -->\n).*?(\n<!-- /seeded:summary -->)', lambda mm: mm.group(1) + summary + mm.group(2), s, flags=re.S)
s = re.sub(r'(<!-- seeded:table -->\n).*?(\n<!-- /seeded:table -->)', lambda mm: mm.group(1) + '\n'.join(rows) + mm.group(2), s, flags=re.S)
open('/verif/DESIGN.md', 'w').write(s)
print(n, 'rows')
