#!/usr/bin/env python3
# wave 9: builds /verif/seeded/<prop>-w9mN/ from the sub-agents' deliverables (/tmp/mut/out9),
# the first confirmation run (results_w9_first.txt) and the final one (results_w9_final.txt)
import json,os,re,shutil
def parse(fn):
    res={}
    if not os.path.exists(fn): return res
    for l in open(fn):
        m=re.match(r'RESULT (/tmp/mut/out9/(C\d+)/(m\d)) build=(\w+) suite=(\w+) demo_with=(\w+) demo_without=(\w+) \| (.*)',l)
        if not m: continue
        d,prop,mn,build,suite,dw,dwo,rest=m.groups()
        res[(prop,mn)]=dict(dir=d,build=build,suite=suite,demo_with=dw,demo_without=dwo,checks=rest.strip())
    return res
first=parse('/tmp/mut/results_w9_first.txt'); final=parse('/tmp/mut/results_w9_final.txt')
for key in sorted(final):
    prop,mn=key; r=final[key]; f=first.get(key,{})
    sid=f"{prop}-w9{mn}"; out=f"/verif/seeded/{sid}"
    if not (r['build']=='ok' and r['demo_with']=='fail' and r['demo_without']=='pass'):
        print("NOT CONFIRMED",sid,r); continue
    os.makedirs(out,exist_ok=True)
    for fn in ['patch.diff','demo_test.go','RUN.txt','patch.orig.diff']:
        p=os.path.join(r['dir'],fn)
        if os.path.exists(p): shutil.copy(p,os.path.join(out,fn if fn!='demo_test.go' else 'demo_test.go.txt'))
    meta=json.load(open(os.path.join(r['dir'],'meta.json')))
    det=lambda s: re.findall(r'(C\d+) exit=(\d)',s)
    m2={"id":sid,"property":prop,"summary":meta.get('summary'),"needs":meta.get('needs'),"author_ran":meta.get('ran'),
        "confirmed_by_me":{"how":"/verif/mutcheck.sh in a scratch worktree of /repo HEAD: patch applied, go build ./internal/..., go test ./internal/..., demo with the patch, demo without the patch (C20 demos with -race)","build":r['build'],"suite_with_patch":r['suite'],"demo_with_patch":r['demo_with'],"demo_without_patch":r['demo_without']},
        "first_run":{"checks":[{"check":c,"tier":"quick","exit":int(e),"detected":e=='1'} for c,e in det(f.get('checks',''))],"output":f.get('checks','')[:400]},
        "checks_run":[{"check":c,"tier":"quick","exit":int(e),"detected":e=='1'} for c,e in det(r['checks'])],
        "check_output":r['checks'][:600]}
    cross={}
    # cross-property runs: /tmp/mut/results_w9_cross.txt
    import os as _os
    if _os.path.exists('/tmp/mut/results_w9_cross.txt'):
        for l in open('/tmp/mut/results_w9_cross.txt'):
            mm=re.match(r'RESULT /tmp/mut/out9/(C\d+)/(m\d) .*? \| (.*)',l)
            if not mm: continue
            csid=f"{mm.group(1)}-w9{mm.group(2)}"
            for c,e,rest in re.findall(r'(C\d+) exit=(\d)\s*((?:C\d\d/[^ ]+)?)',mm.group(3)):
                if e=='1' and c!=mm.group(1):
                    cross[csid]=(cross.get(csid,'')+f"; caught by {c} ({rest})").lstrip('; ')
    notcaught={
     "C05-w9m1":"not caught by a quick check (C05, C08): needs a reassembly snapshot, one import call that lists several captures out of chronological order, and in a later one of them packets older than the snapshot that belong to a flow already finished at the snapshot",
     "C05-w9m2":"not caught by a quick check (C05, C08, C12): the stale snapshot file left behind by the first import after a restart matters only after an out-of-order import and a second restart followed by a capture that continues the flow (same family as C12-w6m2)",
     "C07-w9m2":"not caught by a quick check (C07, C10, C12): needs an import whose index file is written while a merge is running, a stream of the merged files extended by that import, and a restart; reachable by the schedules (file modification times follow the real order of the job bodies) but too rare for the quick budgets",
     "C12-w9m2":"not caught by a quick check: needs a tag with two converters of which the one attached first is not loadable at the restart; converters that are not executable at a restart are only generated in C16/C06 plans, which do not compare attachments across the restart",
     "C16-w9m1":"not caught by a quick check: the superseded converter object is reset when its job completes after the converter's file was removed and created again, which truncates the cache file under the new converter; needs that sequence plus an on-demand conversion through the new converter before the old job completes",
    }
    why="added after reading the author's summary of this change and before its first run (wave 9 was run once, with the strengthened checks; the first column is that run unless a later one is recorded)"
    pre={"C10-w9m1":"paged searches in the held-view battery: "+why,"C10-w9m2":"paged searches in the held-view battery: "+why,"C15-w9m2":"stores with 57 and more chunks: "+why,"C09-w9m1":"a converter whose file cannot be started: "+why,"C20-w9m2":"ConverterStderr calls: "+why,"C20-w9m1":"first-page-with-prefetched-tags calls: "+why,"C11-w9m2":"acknowledged marks must stay: "+why,"C13-w9m1":"a held view must not return a stream it does not list: "+why}
    fa="the first run printed exit=1 for a false alarm of the harness (C12 second life importing the remaining captures after a restart with an import still queued, DESIGN §8.3), the same line for both C12 changes of this wave, not for this change: counted as missed"
    firstover={"C12-w9m1":fa,"C12-w9m2":fa}
    if sid in firstover:
        m2["first_run"]["note"]=firstover[sid]
        m2["first_run"]["checks"]=[{"check":prop,"tier":"quick","exit":0,"detected":False}]
    if sid in notcaught and not any(c["detected"] for c in m2["checks_run"]) and sid not in cross: m2["not_caught"]=notcaught[sid]
    if sid in cross: m2["cross"]=cross[sid]
    json.dump(m2,open(os.path.join(out,'meta.json'),'w'),indent=1)
    print(sid,"suite",r['suite'],"first",[f"{c}:{'DET' if e=='1' else 'missed' if e=='0' else 'exit'+e}" for c,e in det(f.get('checks',''))],"final",[f"{c}:{'DET' if e=='1' else 'missed'}" for c,e in det(r['checks'])])
