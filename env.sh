# sourced by every script: offline Go environment
export GOFLAGS=-mod=mod GOPROXY=off GOSUMDB=off GOTOOLCHAIN=local CGO_ENABLED=1
VERIF_GO=/root/go/pkg/mod/golang.org/toolchain@v0.0.1-go1.25.0.linux-amd64/bin/go
if [ ! -x "$VERIF_GO" ]; then
  if command -v go1.26.8 >/dev/null 2>&1; then VERIF_GO=$(command -v go1.26.8); else VERIF_GO=$(command -v go); fi
fi
export VERIF_GO
