#!/usr/bin/env python3
# wave 6: builds /verif/seeded/<prop>-w6mN/ from the sub-agents' deliverables (/tmp/mut/out6),
# the first confirmation run (results_w6_first.txt) and the final one (results_w6_final.txt)
import json,os,re,shutil
def parse(fn):
    res={}
    if not os.path.exists(fn): return res
    for l in open(fn):
        m=re.match(r'RESULT (/tmp/mut/out6/(C\d+)/(m\d)) build=(\w+) suite=(\w+) demo_with=(\w+) demo_without=(\w+) \| (.*)',l)
        if not m: continue
        d,prop,mn,build,suite,dw,dwo,rest=m.groups()
        res[(prop,mn)]=dict(dir=d,build=build,suite=suite,demo_with=dw,demo_without=dwo,checks=rest.strip())
    return res
first=parse('/tmp/mut/results_w6_first.txt'); final=parse('/tmp/mut/results_w6_final.txt')
for key in sorted(final):
    prop,mn=key; r=final[key]; f=first.get(key,{})
    sid=f"{prop}-w6{mn}"; out=f"/verif/seeded/{sid}"
    if not (r['build']=='ok' and r['demo_with']=='fail' and r['demo_without']=='pass'):
        print("NOT CONFIRMED",sid,r); continue
    os.makedirs(out,exist_ok=True)
    for fn in ['patch.diff','demo_test.go','RUN.txt','patch.orig.diff']:
        p=os.path.join(r['dir'],fn)
        if os.path.exists(p): shutil.copy(p,os.path.join(out,fn if fn!='demo_test.go' else 'demo_test.go.txt'))
    meta=json.load(open(os.path.join(r['dir'],'meta.json')))
    det=lambda s: re.findall(r'(C\d+) exit=(\d)',s)
    m2={"id":sid,"property":prop,"summary":meta.get('summary'),"needs":meta.get('needs'),"author_ran":meta.get('ran'),
        "confirmed_by_me":{"how":"/verif/mutcheck.sh in a scratch worktree of /repo HEAD: patch applied, go build ./internal/..., go test ./internal/..., demo with the patch, demo without the patch (C20 demos with -race)","build":r['build'],"suite_with_patch":r['suite'],"demo_with_patch":r['demo_with'],"demo_without_patch":r['demo_without']},
        "first_run":{"checks":[{"check":c,"tier":"quick","exit":int(e),"detected":e=='1'} for c,e in det(f.get('checks',''))],"output":f.get('checks','')[:400]},
        "checks_run":[{"check":c,"tier":"quick","exit":int(e),"detected":e=='1'} for c,e in det(r['checks'])],
        "check_output":r['checks'][:600]}
    cross={"C10-w6m1":"caught by C07 (the merged file's search results differ when a merged file is merged again: C07/merge/repeated-search)","C12-w6m2":"caught by C08 in most quick runs (restart between imports with a reloaded snapshot: C08/oneshot/differs), not in all","C16-w6m2":"caught by C15 (cachesim: compaction after the change fails to skip a record: C15/cache/store-error)"}
    notcaught={"C09-w6m1":"not caught by any check: the PCAP-over-IP handler deadlocks only when its import request is submitted while the service loop is blocked on the handler's own channel, a real-time overlap the controller does not schedule (the feed runs outside the gates)"}
    if sid in notcaught: m2["not_caught"]=notcaught[sid]
    if sid in cross: m2["cross"]=cross[sid]
    json.dump(m2,open(os.path.join(out,'meta.json'),'w'),indent=1)
    print(sid,"suite",r['suite'],"first",[f"{c}:{'DET' if e=='1' else 'missed' if e=='0' else 'exit'+e}" for c,e in det(f.get('checks',''))],"final",[f"{c}:{'DET' if e=='1' else 'missed'}" for c,e in det(r['checks'])])
