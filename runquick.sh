#!/bin/bash
# runs every registered quick check once (VERIF_SEED=1) and reports; evidence lands in /verif/evidence
cd /verif
for p in C05 C06 C07 C08 C09 C10 C11 C12 C13 C15 C16 C19 C20; do
  VERIF_SEED=${VERIF_SEED:-1} ./bin/verif check $p --tier quick > /var/tmp/quick_$p.out 2>&1; e=$?
  echo "$p exit=$e $(grep -c '^KNOWN' /var/tmp/quick_$p.out) known; $(tail -1 /var/tmp/quick_$p.out | cut -c1-160)"
done
