#!/bin/bash
# setup_cmd: build the runner and simgen offline. The instrumented worker is
# rebuilt by every check from /repo's current working tree.
set -e
cd "$(dirname "$0")"
. ./env.sh
mkdir -p bin evidence replays
cd harness
cp /repo/go.sum . 2>/dev/null || true
$VERIF_GO build -o ../bin/verif ./cmd/verif
$VERIF_GO build -o ../bin/simgen ./simgen
echo "setup ok: $($VERIF_GO version)"
