#!/bin/bash
# seeded_regress.sh [id-prefix]: re-confirms every seeded change under /verif/seeded (or those whose id
# starts with the prefix) in a scratch worktree of /repo HEAD and runs its property's quick check against it.
# One RESULT line per change on stdout. Nothing is written to /verif/evidence or /verif/replays.
T=$(mktemp -d /tmp/seedre.XXXXXX)
trap 'rm -rf $T' EXIT
for d in /verif/seeded/${1:-C}*; do
  id=$(basename $d); P=${id%%-*}
  mkdir -p $T/$id
  cp $d/patch.diff $T/$id/patch.diff
  cp $d/demo_test.go.txt $T/$id/demo_test.go
  /verif/mutcheck.sh $T/$id $P | sed "s#$T/##"
done
